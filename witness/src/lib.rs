// builds gecs (and its proc macro) so that witness programs can be compiled against it with rustc
