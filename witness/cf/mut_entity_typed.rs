//@ message: mut entity access is forbidden
include!("prelude.in");
pub fn f(world: &mut EcsWorld) {
    ecs_iter!(world, |e: &mut Entity<ArchFoo>| { let _ = e; }); //~ ERROR
    //~^ TWIN ecs_iter!(world, |e: &Entity<ArchFoo>| { let _ = e; });
}
