//@ code: E0499
// a component slice cannot be kept across a creation in the same archetype
include!("prelude.in");
pub fn f(world: &mut EcsWorld) -> usize {
    let s = world.arch_foo.get_slice::<CompA>();
    world.arch_foo.create((CompA(1), CompB(2))); //~ ERROR
    s.len()
}
