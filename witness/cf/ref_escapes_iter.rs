//@ code: E0521
// a component reference cannot escape the ecs_iter! closure
include!("prelude.in");
pub fn f(world: &mut EcsWorld) -> u32 {
    let mut keep: Option<&CompA> = None;
    ecs_iter!(world, |a: &CompA| { keep = Some(a); }); //~ ERROR
    keep.map(|a| a.0).unwrap_or(0)
}
