//@ message: mut entity access is forbidden
include!("prelude.in");
pub fn f(world: &mut EcsWorld) {
    ecs_iter_destroy!(world, |e: &mut EntityDirectAny| { let _ = e; }); //~ ERROR
    //~^ TWIN ecs_iter_destroy!(world, |e: &EntityDirectAny| { let _ = e; });
}
