//@ code: E0502
// the entity handle slice cannot be kept across a destruction
include!("prelude.in");
pub fn f(world: &mut EcsWorld, e: Entity<ArchFoo>) -> usize {
    let es = world.arch_foo.entities();
    world.arch_foo.destroy(e); //~ ERROR
    es.len()
}
