//@ code: E0616
// handle internals are not accessible
include!("prelude.in");
pub fn f(e: EntityAny) -> u32 {
    let k = e.key; //~ ERROR
    //~^ TWIN let k = e.raw().0;
    k
}
