//@ code: E0133
// every expansion compiles under forbid(unsafe_code); the twin is this file without the offending call
#![forbid(unsafe_code)]
include!("prelude.in");
pub fn f(world: &mut EcsWorld, k: EntityAny) -> Option<u32> {
    let mut s = 0;
    ecs_iter!(world, |a: &mut CompA, e: &EntityAny, d: &EntityDirect<_>| { a.0 += 1; s += a.0; let _ = (e, d); });
    ecs_iter_borrow!(world, |a: &CompA, b: &mut CompB| { b.0 += a.0; });
    ecs_iter_destroy!(world, |c: &CompC| { if c.0 == 0 { EcsStepDestroy::ContinueDestroy } else { EcsStepDestroy::Continue } });
    let _ = ecs_find_borrow!(world, k, |a: &CompA| -> u32 { a.0 });
    let n = std::hint::unreachable_unchecked(); //~ ERROR
    //~^ TWIN let n = ();
    let _ = n;
    ecs_find!(world, k, |a: &mut CompA| -> u32 { a.0 += s; a.0 })
}
