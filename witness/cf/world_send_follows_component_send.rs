//@ code: E0277
// Send-ness of a world follows the Send-ness (not the Sync-ness) of its components:
// a Sync-but-not-Send component (MutexGuard) makes it !Send; a Send-but-not-Sync one (Cell) leaves it Send
use gecs::prelude::*;
use std::cell::Cell;
use std::sync::MutexGuard;
pub struct CompGuard(pub MutexGuard<'static, u32>);
pub struct CompCell(pub Cell<u32>);
ecs_world! { ecs_archetype!(ArchGuard, CompGuard); ecs_archetype!(ArchCell, CompCell); }
fn is_send<T: Send>() {}
pub fn f() {
    is_send::<ArchGuard>(); //~ ERROR
    //~^ TWIN is_send::<ArchCell>();
}
