//@ code: E0499
// an item of Archetype::iter_mut cannot be kept across a destruction
include!("prelude.in");
pub fn f(world: &mut EcsWorld, e: Entity<ArchFoo>) -> u32 {
    let mut it = world.arch_foo.iter_mut();
    let x = it.next();
    drop(it);
    world.arch_foo.destroy(e); //~ ERROR
    x.map(|t| t.1 .0).unwrap_or(0)
}
