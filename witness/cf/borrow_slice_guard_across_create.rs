//@ code: E0502
// a borrow_slice guard cannot be kept across a creation
include!("prelude.in");
pub fn f(world: &mut EcsWorld) -> usize {
    let g = world.arch_foo.borrow_slice::<CompA>();
    world.arch_foo.create((CompA(1), CompB(2))); //~ ERROR
    g.len()
}
