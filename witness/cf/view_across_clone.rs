//@ code: E0502
// a view (exclusive) cannot be kept across cloning the world
include!("prelude.in");
pub fn f(world: &mut EcsWorld, e: Entity<ArchFoo>) -> u32 {
    let v = world.view(e).unwrap();
    let c = world.clone(); //~ ERROR
    //~^ TWIN let c = ();
    drop(c);
    v.comp_a.0
}
