//@ message: mut entity access is forbidden
include!("prelude.in");
pub fn f(world: &mut EcsWorld, k: EntityAny) {
    ecs_find!(world, k, |e: &mut EntityDirect<_>| { let _ = e; }); //~ ERROR
    //~^ TWIN ecs_find!(world, k, |e: &EntityDirect<_>| { let _ = e; });
}
