//@ code: E0499
// an item of Archetype::iter cannot be kept across a creation
include!("prelude.in");
pub fn f(world: &mut EcsWorld) -> u32 {
    let mut it = world.arch_foo.iter();
    let x = it.next();
    drop(it);
    world.arch_foo.create((CompA(1), CompB(2))); //~ ERROR
    x.map(|t| t.1 .0).unwrap_or(0)
}
