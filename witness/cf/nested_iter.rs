//@ code: E0499
// ecs_iter! cannot be nested inside ecs_iter! on the same world (the runtime-borrowed twin can)
include!("prelude.in");
pub fn f(world: &mut EcsWorld) {
    ecs_iter!(world, |a: &mut CompA| { ecs_iter!(world, |b: &CompB| { a.0 += b.0; }); }); //~ ERROR
    //~^ TWIN ecs_iter_borrow!(world, |a: &mut CompA| { ecs_iter_borrow!(world, |b: &CompB| { a.0 += b.0; }); });
}
