//@ code: E0502
// a runtime-borrow context cannot be kept across a destruction
include!("prelude.in");
pub fn f(world: &mut EcsWorld, e: Entity<ArchFoo>) -> usize {
    let b = world.borrow(e).unwrap();
    world.destroy(e); //~ ERROR
    b.index()
}
