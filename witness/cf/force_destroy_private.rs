//@ code: E0624
// the unchecked remover is not callable from client code
include!("prelude.in");
pub fn f(world: &mut EcsWorld, e: Entity<ArchFoo>) {
    let _ = world.arch_foo.data.force_destroy(todo!()); //~ ERROR
    //~^ TWIN let _ = world.arch_foo.data.destroy(e);
    let _ = e;
}
