//@ code: E0451
// handles cannot be forged with a struct literal; from_raw is the documented constructor
include!("prelude.in");
pub fn f(v: gecs::version::SlotVersion) -> EntityAny {
    let e = EntityAny { key: 0, version: v }; //~ ERROR
    //~^ TWIN let _ = v; let e = EntityAny::from_raw((0, 1)).unwrap();
    e
}
