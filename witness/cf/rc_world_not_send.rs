//@ code: E0277
// a world is Send only if all its components are
use gecs::prelude::*;
use std::rc::Rc;
pub struct CompRc(pub Rc<u32>);
pub struct CompU(pub u32);
ecs_world! { ecs_archetype!(ArchRc, CompRc); ecs_archetype!(ArchU, CompU); }
fn is_send<T: Send>() {}
fn is_handle<T: Copy + Send + Sync + Eq + std::hash::Hash>() {}
pub fn f() {
    is_handle::<Entity<ArchRc>>();
    is_handle::<EntityDirect<ArchRc>>();
    is_handle::<EntityAny>();
    is_handle::<EntityDirectAny>();
    is_send::<EcsWorld>(); //~ ERROR
    //~^ TWIN is_send::<ArchU>();
}
