//@ message: mut entity access is forbidden
include!("prelude.in");
pub fn f(world: &mut EcsWorld, k: EntityAny) {
    let _ = ecs_find_borrow!(world, k, |a: &CompA, e: &mut EntityAny| { let _ = (a, e); }); //~ ERROR
    //~^ TWIN let _ = ecs_find_borrow!(world, k, |a: &CompA, e: &EntityAny| { let _ = (a, e); });
}
