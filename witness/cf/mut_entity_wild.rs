//@ message: mut entity access is forbidden
include!("prelude.in");
pub fn f(world: &mut EcsWorld) {
    ecs_iter_borrow!(world, |e: &mut Entity<_>| { let _ = e; }); //~ ERROR
    //~^ TWIN ecs_iter_borrow!(world, |e: &Entity<_>| { let _ = e; });
}
