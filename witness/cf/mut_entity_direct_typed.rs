//@ message: mut entity access is forbidden
include!("prelude.in");
pub fn f(world: &mut EcsWorld) {
    ecs_iter_destroy!(world, |e: &mut EntityDirect<ArchFoo>| { let _ = e; EcsStepDestroy::Continue }); //~ ERROR
    //~^ TWIN ecs_iter_destroy!(world, |e: &EntityDirect<ArchFoo>| { let _ = e; EcsStepDestroy::Continue });
}
