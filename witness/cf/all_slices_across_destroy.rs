//@ code: E0499
// the slices struct cannot be kept across a destruction
include!("prelude.in");
pub fn f(world: &mut EcsWorld, e: Entity<ArchFoo>) -> usize {
    let s = world.arch_foo.get_all_slices_mut();
    world.arch_foo.destroy(e); //~ ERROR
    s.comp_a.len()
}
