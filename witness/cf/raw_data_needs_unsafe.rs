//@ code: E0133
// unsafe internals need an unsafe block (which client crates forbid)
include!("prelude.in");
pub fn f() -> usize {
    let mut p = gecs::__internal::DataPtr::<u32>::with_capacity(4);
    let n = p.raw_data(4).len(); //~ ERROR
    //~^ TWIN let n = { let _ = &mut p; 4 };
    n
}
