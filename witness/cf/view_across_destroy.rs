//@ code: E0499
// a view cannot be kept across a destruction
include!("prelude.in");
pub fn f(world: &mut EcsWorld, e: Entity<ArchFoo>) -> u32 {
    let v = world.view(e).unwrap();
    world.destroy(e); //~ ERROR
    v.comp_a.0
}
