//@ code: E0499
// one component cannot be borrowed mutably twice in one ecs_find!
include!("prelude.in");
pub fn f(world: &mut EcsWorld, e: Entity<ArchFoo>) {
    ecs_find!(world, e, |a: &mut CompA, b: &mut CompA| { a.0 += b.0; }); //~ ERROR
}
