//@ code: E0277
// a world is never Sync (its columns are RefCells)
include!("prelude.in");
fn is_sync<T: Sync>() {}
fn is_send<T: Send>() {}
pub fn f() {
    is_sync::<EcsWorld>(); //~ ERROR
    //~^ TWIN is_send::<EcsWorld>();
}
