//@ message: mut entity access is forbidden
include!("prelude.in");
pub fn f(world: &mut EcsWorld) {
    ecs_iter!(world, |e: &mut EntityAny| { let _ = e; }); //~ ERROR
    //~^ TWIN ecs_iter!(world, |e: &EntityAny| { let _ = e; });
}
