//@ code: E0499
// one component cannot be borrowed mutably twice in one ecs_iter!
include!("prelude.in");
pub fn f(world: &mut EcsWorld) {
    ecs_iter!(world, |a: &mut CompA, b: &mut CompA| { a.0 += b.0; }); //~ ERROR
}
