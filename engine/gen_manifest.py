#!/usr/bin/env python3
"""Regenerates /verif/MANIFEST.json from the rule registry."""
import json, os, sys
HERE = os.path.dirname(os.path.abspath(__file__))
sys.path.insert(0, HERE)
from rules import registry

ALL = ["C%02d" % i for i in range(1, 20)]
TECH = {
    "C01": "MIR path-condition analysis of the key resolvers + effect/provenance rules on remover and slot primitives",
    "C02": "MIR provenance and column-uniformity analysis of creator/remover/readers; extent-discipline rule",
    "C03": "MIR guard-dominance analysis of every key-indexed unchecked access; closed inventory of unchecked sites (per profile); bit-width const facts",
    "C04": "MIR ownership-primitive who-may-call, pairing and drop-shape rules",
    "C05": "MIR guard formulas of the macro crate's binder functions; specimen expansions vs. independent matcher; generated query corpus decided by rustc's type checker (match-set witnesses)",
    "C06": "MIR shape rules for iterators and generated loops (specimen expansion)",
    "C07": "MIR loop-shape and arm-mapping rules on the ecs_iter_destroy! expansion (specimen)",
    "C08": "MIR provenance of minted handles and of the generation successor per configuration; who-may-write rule",
    "C09": "MIR path-condition analysis of the direct resolver; bump-on-every-removal rule; mint-freshness dataflow on expansions",
    "C10": "MIR may-unwind analysis of commit sections (effect order vs. panic points), closed unwind tables",
    "C11": "MIR effect summaries of RefCell acquisitions; guard-lifetime rules on expansions; computed conflict matrix",
    "C12": "MIR guard formulas of push/push_within_capacity/grow/with_capacity; who-may-write len/capacity; free-list step rules",
    "C13": "MIR aggregate provenance of Clone::clone results and copy-loop ranges",
    "C14": "MIR bit-layout agreement of pack/unpack, conversion guard formulas, transmute repr facts, generated dispatch tables (specimen)",
    "C15": "MIR guard/provenance rules on the macro crate's id assignment; generated declaration corpus with const-evaluated witnesses and compile-fail expectations",
    "C16": "MIR call-graph/provenance rules on cfg collectors and lookups; template literal-shape scan; generated cfg-decorated declaration and query corpora (const / type-checker witnesses)",
    "C17": "MIR who-may-write/one-push-per-operation rules; generated event iterator state machine (specimen)",
    "C18": "template token scan (syn) for unsafe-freedom; fn_sig lifetime-boundedness; compile-fail witnesses with compiling twins",
    "C19": "cfg-site inventory vs. reviewed table; debug-check effect-freedom; all rules re-run per configuration (a rule instance failing in only some configurations is a violation)",
}
checks = []
na = []
for pid in ALL:
    if pid in registry.PROPS:
        sp = registry.PROPS[pid]
        checks.append({
            "property_id": pid,
            "quick_cmd": "./check %s --tier quick" % pid,
            "thorough_cmd": "./check %s --tier thorough" % pid,
            "evidence_file": "/verif/evidence/%s.json" % pid,
            "replay_cmd_template": "./check %s --replay {path}" % pid,
            "engine": "rules",
            "level_claimed": {
                "category": "other",
                "text": "static analysis deciding structural clauses that are necessary conditions of the property: " + sp["explanation"] + " NOT decided: " + sp.get("not_decided", ""),
                "design_ref": "DESIGN.md section 5, " + pid,
            },
            "level_note": "trusted base: " + "; ".join(sp.get("assumptions", registry.COMMON_ASSUMPTIONS)),
            "technique": TECH[pid],
        })
    else:
        na.append({"property_id": pid, "reason": "no rule of the static rule set for this property is wired yet in this revision (design: DESIGN.md section 5); no claim is made until a sound rule exists"})
m = {
    "version": 1,
    "setup_cmd": "./setup.sh",
    "hooks": {
        "guard": "gecs_verif",
        "enable": "none needed: the checks read /repo's working tree as it is (static analysis); the guard name is reserved and unused",
        "baseline_off_cmd": "cd /repo && cargo test --workspace --no-fail-fast --offline",
        "source_commits": [],
        "add_only": True,
    },
    "engines": [
        {"name": "mirfacts", "path": "engine/mirfacts", "serves_properties": sorted(registry.PROPS), "kind_free_text": "rustc_private driver: MIR/ADT/impl/const facts + monomorphic walk of a specimen client crate"},
        {"name": "rules", "path": "engine/rules", "serves_properties": sorted(registry.PROPS), "kind_free_text": "Python rule engine: pruned CFGs, path-wise symbolic evaluation with bounded inlining, guard formulas, provenance, effect order"},
    ],
    "checks": checks,
    "not_applicable": na,
    "notes": "All checks are static: nothing of gecs is executed. One shared analysis per (tree, tier) is cached under /verif/.cache keyed by a hash of the analysed sources and engines.",
}
json.dump(m, open(os.path.join(os.path.dirname(HERE), "MANIFEST.json"), "w"), indent=1)
print("claimed", [c["property_id"] for c in checks], "n/a", [x["property_id"] for x in na])
