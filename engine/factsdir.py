import sys, os
sys.path.insert(0, os.path.dirname(os.path.abspath(__file__)))
import extract
name = sys.argv[1] if len(sys.argv) > 1 else "d-0"
for c in extract.all_configs():
    if c.name == name:
        print(extract.ensure_facts(c))
