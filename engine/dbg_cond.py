import sys
sys.path.insert(0,'/verif/engine')
from rules import core
from rules.norm import N, NL, cname, atom, show_atom
from rules.sym import show
def run(F, crate, name, keys, maxp=40):
    ctx=core.Ctx(F,'d')
    cr=getattr(ctx,crate); ex={'macros':ctx.macex,'gecs':ctx.ex,'spec':ctx.specex}[crate]
    f=cr.fns[name]
    ps=ctx.paths(f, ex)
    print('==',name,None if ps is None else len(ps))
    for p in (ps or [])[:maxp]:
        print(' PATH', p.end if not isinstance(p.end,tuple) else (p.end[0],str(p.end[1])[:30]))
        items=[]
        for c in p.conds:
            if c[2]=='branch': items.append((c[4],'if '+show_atom(atom(c))[:260]))
        for i,e in enumerate(p.effects):
            if e[0]=='loop': items.append((i,'LOOP %s'%e[1]))
            if e[0]=='call' and any(cname(e[2]).endswith(x) for x in keys):
                items.append((i,'call %s %s'%(cname(e[2]),[show(N(a))[:110] for a in e[3]])))
        for i,t in sorted(items, key=lambda x:x[0]): print('    ',t)
        if p.ret is not None: print('     RET',show(N(p.ret))[:260])
if __name__=='__main__':
    run(sys.argv[1], sys.argv[2], sys.argv[3], sys.argv[4].split(','))
