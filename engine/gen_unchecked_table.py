#!/usr/bin/env python3
"""Developer tool: (re)generates tables/unchecked_sites.json from the current tree (debug + release facts).
The result must be REVIEWED by hand (discharge column) before it is committed."""
import json, os, sys, collections
sys.path.insert(0, os.path.dirname(os.path.abspath(__file__)))
import extract
from rules import core, r_misc
DISCHARGE = [
 ("resolve_entity", "guard Lt(slot,capacity) / !is_free / I3 (C01-R1, C03-R1)"), ("resolve_direct", "guard Eq(version) / Lt(dense,len) / I3 (C09-R1, C03-R7)"),
 ("force_destroy", "resolver post-condition (X-WMC origin), X-EXT"), ("force_create", "contract len<capacity (C12-R2 creator-contract), I1/I4"),
 ("grow", "X-EXT, policy new>old (C12-R2)"), ("clone", "loop bounds Range(0,capacity)/Range(0,len), fresh arrays (C13-R2/R3)"), ("drop", "X-EXT@dropper, I1/I2"),
 ("get_view_mut", "index from resolve() (C01-R2), X-EXT@view"), ("slice", "X-EXT@slices + I2"), ("borrow", "index set at construction from resolve(), X-EXT@borrow"),
 ("iter", "remaining = len (C06-R1)"), ("next", "guard remaining != 0 (C06-R2); constructed only by storage (C06-R1)"),
 ("DataPtr", "lifted to callers (X-EXT / X-WMC)"), ("with_capacity", "allocated with the same capacity (X-EXT@ctor)"), ("push", "creator contract (C12-R2)"),
 ("resolve_destroy", "argument = resolver payload (X-WMC)"), ("resolve_for", "assume: I1, resolver post"), ("index_", "slot index fields written only by new_data/new_free/free_end"),
 ("slot_index", "C03-R4 widths"), ("dense_index", "C03-R4 widths"), ("from", "C14-R4 repr(transparent) / constructor discipline"), ("new_layout", "-"), ("resolve_ptr", "-"),
]
def discharge(fn):
    for k, v in DISCHARGE:
        if k in fn.split("::")[-1] or (k == "DataPtr" and "DataPtr" in fn):
            return v
    return "reviewed"
res = {}
for cfg, mode in ((extract.Config((), True), "debug"), (extract.Config((), False), "release"), (extract.Config(("events",), False), "release+events")):
    ctx = core.Ctx(extract.ensure_facts(cfg), cfg.name)
    per = collections.defaultdict(dict)
    for (path, op), n in r_misc.unchecked_sites(ctx).items():
        per[(r_misc.fam(path), op)][r_misc.arity_of(path)] = n
    for k, byn in per.items():
        if None in byn:
            a, b = byn[None], 0
        else:
            ns = sorted(byn)
            if len(ns) >= 2:
                b = (byn[ns[1]] - byn[ns[0]]) // (ns[1] - ns[0])
                a = byn[ns[0]] - b * ns[0]
            else:
                a, b = byn[ns[0]], 0
            bad = [n for n in ns if a + b * n != byn[n]]
            assert not bad, (k, byn)
        res.setdefault(k, {})[mode] = [a, b]
sites = []
for (fn, op), v in sorted(res.items()):
    rel = v.get("release", [0, 0])
    re_ = v.get("release+events", [0, 0])
    sites.append({"fn": fn, "op": op, "debug": v.get("debug", [0, 0]), "release": rel, "events_extra": [re_[0] - rel[0], re_[1] - rel[1]], "discharge": discharge(fn)})
json.dump({"_comment": "Reviewed inventory of every unchecked operation / call to an unsafe fn in gecs, per function family. counts are [a, b] meaning a + b*N sites for StorageN/BorrowN/IterN (N = number of components). debug = with debug assertions (adds the two cfg(debug_assertions) blocks and UB-check helpers), release = without, events_extra = additional sites with the events feature. C03-R2 requires the current inventory to match; anything else is UNREVIEWED-UNSAFE.", "sites": sites},
          open(os.path.join(os.path.dirname(os.path.dirname(os.path.abspath(__file__))), "tables/unchecked_sites.json"), "w"), indent=1)
print(len(sites), "site kinds")
