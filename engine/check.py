#!/usr/bin/env python3
"""./check <property> [--tier quick|thorough] [--replay FILE] [--repo DIR]

Decides the structural clauses of one property from the current source of /repo
(static analysis only; nothing of gecs is executed). All properties share one analysis
run per (tree, tier), cached under /verif/.cache by a hash of the analysed sources and
of the engines; the evidence file of the requested property is rewritten on every call.
"""
import argparse
import fcntl
import hashlib
import json
import multiprocessing
import os
import sys
import time
import traceback

HERE = os.path.dirname(os.path.abspath(__file__))
VERIF = os.path.dirname(HERE)
sys.path.insert(0, HERE)

import extract  # noqa: E402
from rules import core, registry  # noqa: E402

sys.setrecursionlimit(20000)


ALWAYS = ("ANCHOR", "FLOOR", "ENGINE", "BUILD", "SHAPE", "SPECIMEN")
# properties whose generator logic is also decided end-to-end by a generated-program corpus (r_corpus.py)
CORPUS_BACKED = {"C05": ("C05-R8", "C05-R10"), "C15": ("C15-R8", "C15-R9"), "C16": ("C16-R6", "C16-R7"), "C18": ("C18-R5",)}
MACRO_RULE_IDS = {"C05": ("C05-R1", "C05-R2", "C05-R3", "C05-R4", "C05-R6"), "C15": ("C15-R1", "C15-R2", "C15-R3", "C15-R4", "C15-R6"), "C16": ("C16-R1", "C16-R2", "C16-R3", "C16-R4", "C16-R5"), "C18": ("C18-R6",)}
# which r_macros rule functions are backed by the corpus / witnesses of which property (None = all of r_macros)
BACKED_ORIGINS = {"C18": ("r_macros.rule_param_parser",)}


def blame_specimen(err):
    """Which properties a specimen build failure is attributed to: errors inside query functions -> C05 (a well-formed
    query must compile and bind each parameter to its own column); otherwise the generated world items -> C14/C15."""
    import re
    lines = []
    for m in re.finditer(r"--> (src/\w+\.rs):(\d+)", err):
        lines.append((m.group(1), int(m.group(2))))
    msgs = re.findall(r"^error(?:\[E\d+\])?: (.*)$", err, re.M)
    first = (msgs[0] if msgs else "compile error")[:160]
    fn_name = "?"
    in_query = False
    for (f, l) in lines:
        try:
            src = open(os.path.join(VERIF, "specimen", f)).read().split("\n")
        except OSError:
            continue
        for i in range(min(l, len(src)) - 1, -1, -1):
            mm = re.match(r"\s*pub fn (\w+)", src[i])
            if mm:
                fn_name = mm.group(1)
                break
        if re.match(r"^(find_|iter_)", fn_name):
            in_query = True
            break
    where = "specimen/%s:%d (%s)" % (lines[0][0], lines[0][1], fn_name) if lines else None
    if in_query:
        return (("C05",), "query", "%s (in %s)" % (first, fn_name), where)
    return (("C14", "C15"), "world", "%s (in %s)" % (first, fn_name), where)


def pack(R, spec, wall):
    """Keep only the rule ids that belong to this property (a rule function may judge
    instances of several properties' rules in one pass)."""
    own = set(spec["rules"])
    def mine(rule):
        return rule in own or rule in ALWAYS
    return {
        "counts": {k: v for k, v in R.counts.items() if mine(k)},
        "violations": [{"rule": v.rule, "key": v.key, "detail": v.detail, "where": v.where, "config": v.config, "origin": getattr(v, "origin", None)} for v in R.violations
                       if mine(v.rule) and not (v.rule == "FLOOR" and v.key not in own)],
        "samples": [s for s in R.samples.values() if mine(s["rule"])],
        "okfams": sorted({"%s|%s" % (r, family(k)) for (r, k) in getattr(R, "okkeys", ()) if mine(r)}),
        "notes": R.notes,
        "nontrivial": len([1 for (r, k) in R.nontrivial if mine(r)]),
        "functions": len(R.functions),
        "wall": round(wall, 2),
    }


def analyse_config(args):
    cfg_features, cfg_debug, repo, props = args
    cfg = extract.Config(cfg_features, cfg_debug)
    t0 = time.time()
    out = {"config": cfg.name, "describe": cfg.describe(), "props": {}, "error": None}
    try:
        fdir = extract.ensure_facts(cfg, repo)
    except extract.BuildError as e:
        out["error"] = str(e)
        return out
    try:
        ctx = core.Ctx(fdir, cfg.name)
    except Exception:
        out["error"] = "loading facts failed:\n" + traceback.format_exc()
        return out
    out["t_extract_load"] = round(time.time() - t0, 1)
    spec_blame = None
    if ctx.spec is None:
        spec_blame = blame_specimen(ctx.spec_error)
    for pid in props:
        spec = registry.PROPS[pid]
        R = core.Report(pid)
        R.config = cfg.name
        t1 = time.time()
        if ctx.spec is None and pid in spec_blame[0]:
            R.violations.append(core.Violation("SPECIMEN", "client-program-no-longer-compiles|%s" % spec_blame[1], "the specimen client crate (a valid forbid(unsafe_code) program using every macro and parameter kind) "
                                               "no longer compiles against this tree although gecs and gecs_macros build: %s" % spec_blame[2], spec_blame[3], cfg.name))
        for fn in spec.get("mir_rules", []):
            if ctx.spec is None and (fn.__module__.endswith("r_spec") or getattr(fn, "needs_spec", False)):
                R.note("rule %s skipped: the specimen does not build (attributed to %s)" % (fn.__name__, ",".join(spec_blame[0])))
                continue
            n_before = len(R.violations)
            try:
                fn(ctx, R)
            except Exception:
                R.violations.append(core.Violation("ENGINE", fn.__name__, "rule crashed (fail closed):\n" + traceback.format_exc()[-1500:], None, cfg.name))
            for v in R.violations[n_before:]:
                v.origin = fn.__module__.split(".")[-1] + "." + fn.__name__
        for rule, floor in spec.get("floors", {}).items():
            fl = floor(ctx) if callable(floor) else floor
            if fl is not None and not (ctx.spec is None and R.counts.get(rule, 0) == 0):
                R.floor(rule, fl)
        out["props"][pid] = pack(R, spec, time.time() - t1)
    out["wall"] = round(time.time() - t0, 1)
    return out


def run_static(repo, tier, props):
    """Configuration independent engines (templates / cfg inventory / witnesses)."""
    out = {}
    for pid in props:
        spec = registry.PROPS[pid]
        R = core.Report(pid)
        R.config = "static"
        for fn in spec.get("static_rules", []):
            n_before = len(R.violations)
            try:
                fn(repo, tier, R)
            except Exception:
                R.violations.append(core.Violation("ENGINE", fn.__name__, "rule crashed (fail closed):\n" + traceback.format_exc()[-1500:], None, "static"))
            for v in R.violations[n_before:]:
                v.origin = fn.__module__.split(".")[-1] + "." + fn.__name__
        for rule, floor in spec.get("static_floors", {}).items():
            R.floor(rule, floor)
        out[pid] = pack(R, spec, 0)
    return out


def results_key(repo, tier):
    h = hashlib.sha256()
    h.update(extract.repo_key(repo).encode())
    h.update(extract.engine_key().encode())
    h.update(core.tree_hash([os.path.join(HERE, "rules"), os.path.join(HERE, "check.py"), os.path.join(HERE, "extract.py"),
                             os.path.join(VERIF, "witness"), os.path.join(HERE, "tmpl/src"), os.path.join(VERIF, "tables")]).encode())
    h.update(tier.encode())
    h.update(os.environ.get("VERIF_ONLY_CONFIGS", "").encode())
    h.update(os.environ.get("VERIF_SEED", "").encode())
    h.update(os.path.abspath(repo).encode())
    return h.hexdigest()[:24]


def compute(repo, tier):
    props = sorted(registry.PROPS)
    cfgs = extract.configs_for(tier)
    jobs = [(c.features, c.debug, repo, props) for c in cfgs]
    t0 = time.time()
    nproc = min(len(jobs), 4 if tier == "quick" else 6)
    static_res = None
    with multiprocessing.Pool(nproc) as pool:
        async_res = pool.map_async(analyse_config, jobs)
        static_res = run_static(repo, tier, props)
        per_cfg = async_res.get()
    # facts of scratch trees are not kept; facts of older /repo trees are pruned
    import shutil
    froot = os.path.join(VERIF, ".cache", "facts")
    rk = extract.repo_key(repo)
    if os.path.isdir(froot):
        for d in os.listdir(froot):
            p = os.path.join(froot, d)
            if os.path.abspath(repo) != "/repo":
                if d.startswith(rk):
                    shutil.rmtree(p, ignore_errors=True)
            elif not d.startswith(rk + "-" + extract.engine_key()) and time.time() - os.path.getmtime(p) > 1800:
                # facts of older trees and of older versions of the extractor are not kept
                shutil.rmtree(p, ignore_errors=True)
    return {"tier": tier, "repo": repo, "configs": per_cfg, "static": static_res, "wall": round(time.time() - t0, 1), "at": time.time()}


def get_results(repo, tier, force=False):
    key = results_key(repo, tier)
    rdir = os.path.join(VERIF, ".cache", "results")
    os.makedirs(rdir, exist_ok=True)
    path = os.path.join(rdir, key + ".json")
    # one lock for both tiers: the witness base build and the specimen scratch copies are shared
    lock = open(os.path.join(rdir, "lock-compute"), "w")
    fcntl.flock(lock, fcntl.LOCK_EX)
    try:
        if os.path.exists(path) and not force:
            with open(path) as f:
                res = json.load(f)
            res["cached"] = True
            return res
        res = compute(repo, tier)
        tmp = path + ".tmp%d" % os.getpid()
        with open(tmp, "w") as f:
            json.dump(res, f)
        os.replace(tmp, path)
        # prune old results / facts of other trees
        for fn in os.listdir(rdir):
            p = os.path.join(rdir, fn)
            if fn.endswith(".json") and p != path and time.time() - os.path.getmtime(p) > 6 * 3600:
                os.remove(p)
        res["cached"] = False
        return res
    finally:
        fcntl.flock(lock, fcntl.LOCK_UN)
        lock.close()


def family(key):
    import re
    k = re.sub(r"\b(Storage|Borrow|Iter|IterMut|Components|View|Slices)\d+\b", r"\1N", key)
    k = re.sub(r"\((d)\d+\)", r"(\1N)", k)
    return k


def load_known():
    known = {}
    p = os.path.join(VERIF, "known-findings.txt")
    if os.path.exists(p):
        for line in open(p):
            line = line.strip()
            if line.startswith("finding:"):
                parts = line[len("finding:"):].strip().split(None, 2)
                kv = dict(x.split("=", 1) for x in parts[:2] if "=" in x)
                known[(kv.get("property"), kv.get("key"))] = parts[2] if len(parts) > 2 else ""
    return known


def main():
    ap = argparse.ArgumentParser()
    ap.add_argument("prop")
    ap.add_argument("--tier", default=os.environ.get("VERIF_TIER", "quick"))
    ap.add_argument("--replay")
    ap.add_argument("--repo", default="/repo")
    ap.add_argument("--force", action="store_true")
    ap.add_argument("--no-evidence", action="store_true")
    a = ap.parse_args()
    pid = a.prop
    if pid == "ALL":
        # developer mode: one shared analysis, report which properties fire
        tier = a.tier if a.tier in ("quick", "thorough") else "quick"
        res = get_results(a.repo, tier, a.force)
        a.no_evidence = True
        fired = {}
        for q in sorted(registry.PROPS):
            rc, lines = evaluate(q, res, tier, 0, a, time.time(), quiet=True)
            if rc != 0:
                fired[q] = [l.strip() for l in lines if l.startswith("  rule=")][:5] or lines[-3:]
        print(json.dumps(fired))
        sys.exit(1 if fired else 0)
    if pid not in registry.PROPS:
        print("unknown or unclaimed property", pid)
        sys.exit(2)
    tier = a.tier if a.tier in ("quick", "thorough") else "quick"
    seed = int(os.environ.get("VERIF_SEED", "0") or 0)
    t0 = time.time()
    res = get_results(a.repo, tier, a.force)
    rc, _ = evaluate(pid, res, tier, seed, a, t0)
    sys.exit(rc)


def evaluate(pid, res, tier, seed, a, t0, quiet=False):
    import builtins
    out_lines = []

    def print(*args):
        out_lines.append(" ".join(str(x) for x in args))
        if not quiet:
            builtins.print(*args)

    spec = registry.PROPS[pid]
    counts = {}
    viols = []
    samples = []
    notes = []
    nontrivial = 0
    functions = 0
    cfgnames = []
    for c in res["configs"]:
        cfgnames.append(c["describe"])
        if c.get("error"):
            viols.append({"rule": "BUILD", "key": c["config"], "detail": "the tree does not build/analyse in configuration %s (fail closed): %s" % (c["describe"], c["error"][-1200:]), "where": None, "config": c["config"]})
            continue
        pr = c["props"].get(pid)
        if not pr:
            continue
        for k, v in pr["counts"].items():
            counts[k] = counts.get(k, 0) + v
        viols.extend(pr["violations"])
        for s in pr["samples"]:
            if len([x for x in samples if x["rule"] == s["rule"]]) < 1:
                samples.append(s)
        for n in pr["notes"]:
            if n not in notes:
                notes.append(n)
        nontrivial += pr["nontrivial"]
        functions = max(functions, pr["functions"])
    st = res["static"].get(pid)
    if st:
        for k, v in st["counts"].items():
            counts[k] = counts.get(k, 0) + v
        viols.extend(st["violations"])
        samples.extend(st["samples"][:6])
        notes.extend(n for n in st["notes"] if n not in notes)
        nontrivial += st["nontrivial"]
    if pid == "C19":
        # C19-R4: a rule instance of any property that fails in some analysed configurations but not in all of
        # them is configuration dependent behaviour
        okc = [c for c in res["configs"] if not c.get("error")]
        names = [c["config"] for c in okc]
        per = {}
        for c in okc:
            for q, pr in c["props"].items():
                if q == "C19":
                    continue
                for v in pr["violations"]:
                    if v["rule"] in ALWAYS:
                        continue
                    per.setdefault((q, v["rule"], family(v["key"])), {"cfgs": set(), "v": v})["cfgs"].add(c["config"])
        n4 = 0
        okfam_sets = {}
        for (q, rule, fk), info in sorted(per.items()):
            n4 += 1
            # only configurations in which this very rule instance was judged and held count as "holds there"
            # (an instance that exists only with a feature -- an event push -- is not configuration dependent)
            ident_ = "%s|%s" % (rule, fk)
            applicable = {c["config"] for c in okc if ident_ in okfam_sets.setdefault((c["config"], q), set(c["props"].get(q, {}).get("okfams", ())))}
            holds_in = applicable - info["cfgs"]
            if holds_in:
                v = info["v"]
                viols.append({"rule": "C19-R4", "key": "%s|%s|%s" % (q, rule, fk), "detail": "rule %s of %s fails only in configuration(s) %s and holds in %s: behaviour differs between features/profiles. %s" % (
                    rule, q, sorted(info["cfgs"]), sorted(holds_in), v["detail"][:300]), "where": v["where"], "config": ",".join(sorted(info["cfgs"]))})
        counts["C19-R4"] = counts.get("C19-R4", 0) + sum(sum(pr["counts"].values()) for c in okc for q, pr in c["props"].items() if q != "C19")
        # instance-count differences between configurations that differ only in debug assertions are reported as
        # information, not as violations: debug-only checks legitimately add judged sites (e.g. the resolvers slice a
        # second array inside debug_assert!), so a count delta is not a necessary condition of the property. What such
        # debug-only code may do is decided by C19-R3 (G-DBG: effect-free) and by the C03-R2 inventory per profile.
        byf = {}
        for c in okc:
            byf.setdefault(c["describe"].split(" debug_assertions=")[0], []).append(c)
        for feats, cs in sorted(byf.items()):
            if len(cs) == 2:
                a_, b_ = cs
                for q in sorted(a_["props"]):
                    if q == "C19":
                        continue
                    ca, cb = a_["props"][q]["counts"], b_["props"].get(q, {}).get("counts", {})
                    for r_ in sorted(set(ca) | set(cb)):
                        if ca.get(r_, 0) != cb.get(r_, 0):
                            n_ = "info: rule %s judges %d instances in %s and %d in %s (debug-only checks add sites; not a violation)" % (r_, ca.get(r_, 0), a_["config"], cb.get(r_, 0), b_["config"])
                            if n_ not in notes:
                                notes.append(n_)
    # Corpus-backed properties: the structural rules on the proc-macro crate's own functions (r_macros) and the token-shape
    # rules on its templates (r_tmpl.rule_template_shapes / rule_sibling_helpers) recognise particular code shapes. When such a rule does not hold but the generated-program corpus of the same property
    # (decided by rustc on programs built with the current macros) ran in full and found no behavioural difference,
    # the structural finding is recorded as a note, not as a violation: a behaviour-preserving refactoring of the
    # generator must not raise an alarm, and a behaviour-changing one is what the corpus exists to decide.
    if pid in CORPUS_BACKED:
        crules = CORPUS_BACKED[pid]
        spec_floors = registry.PROPS[pid].get("static_floors", {})
        corpus_ran = all(counts.get(r, 0) >= spec_floors.get(r, 1) for r in crules)
        corpus_clean = corpus_ran and not any(v["rule"] in crules or (v["rule"] in ("FLOOR", "ENGINE", "BUILD") and (v["key"] in crules or "corpus" in v["key"] or "witness" in v["key"])) for v in viols)
        if corpus_clean:
            keep = []
            demoted = {}
            for v in viols:
                o = v.get("origin") or ""
                structural = (o in BACKED_ORIGINS[pid]) if pid in BACKED_ORIGINS else (
                    (o.startswith("r_macros.") and o not in ("r_macros.rule_param_parser",)) or o in ("r_tmpl.rule_template_shapes", "r_tmpl.rule_sibling_helpers"))
                if v["rule"] == "FLOOR" and v["key"] in MACRO_RULE_IDS.get(pid, ()):
                    structural = True
                if structural:
                    demoted.setdefault("%s|%s" % (v["rule"], v["key"]), v)
                else:
                    keep.append(v)
            for k_, v in sorted(demoted.items()):
                n_ = "unconfirmed structural finding (not reported): %s -- %s. The generated-program corpus (%s: %s programs) finds no behavioural difference on this tree." % (
                    k_, v["detail"][:200], ",".join(crules), "+".join(str(counts.get(r, 0)) for r in crules))
                if n_ not in notes:
                    notes.append(n_)
            viols = keep
    # de-duplicate violations across configurations by (rule, family key)
    known = load_known()
    uniq = {}
    for v in viols:
        ident = "%s|%s" % (v["rule"], family(v["key"]))
        uniq.setdefault(ident, {"v": v, "configs": set(), "instances": 0})
        uniq[ident]["configs"].add(v["config"])
        uniq[ident]["instances"] += 1
    new = []
    vdir = os.path.join(VERIF, "evidence", "violations")
    for ident, u in sorted(uniq.items()):
        if (pid, ident) in known:
            print("KNOWN-FINDING: property=%s %s -- %s" % (pid, ident, known[(pid, ident)]))
            continue
        new.append((ident, u))
    replay_hit = None
    if a.replay:
        try:
            want = json.load(open(a.replay))["ident"]
        except Exception:
            print("cannot read replay file", a.replay)
            return 2, out_lines
        replay_hit = any(ident == want for ident, _ in new)
        print("replay %s: %s" % (want, "STILL VIOLATED" if replay_hit else "not reproduced on the current tree"))
    rc = 0
    for ident, u in new:
        v = u["v"]
        os.makedirs(vdir, exist_ok=True)
        hname = hashlib.sha256(ident.encode()).hexdigest()[:10]
        rp = os.path.join(vdir, "%s-%s-%s.json" % (pid, v["rule"], hname))
        with open(rp, "w") as f:
            json.dump({"property": pid, "ident": ident, "rule": v["rule"], "key": v["key"], "where": v["where"], "detail": v["detail"],
                       "configs": sorted(u["configs"]), "instances": u["instances"]}, f, indent=1)
        if a.replay and ident != json.load(open(a.replay))["ident"]:
            continue
        print("VIOLATION property=%s replay=%s" % (pid, rp))
        print("  rule=%s instance=%s configs=%s n=%d" % (v["rule"], v["key"], ",".join(sorted(u["configs"])), u["instances"]))
        print("  at %s" % v["where"])
        print("  %s" % v["detail"].replace("\n", "\n  "))
        rc = 1
    evaluations = sum(counts.values())
    wall = round(time.time() - t0, 2)
    if not a.no_evidence and not a.replay:
        ev = {
            "property_id": pid,
            "tier": tier,
            "seed": seed,
            "level": "other",
            "coverage": {
                "explanation": spec["explanation"],
                "evaluations": evaluations,
                "distinct_nontrivial": nontrivial,
                "rule": "one evaluation = one rule instance (call site, store, guard, path, template or witness) judged on the resolved program; "
                        "distinct_nontrivial counts distinct (configuration, rule, instance key) pairs whose judgement required a path-condition, provenance or effect computation",
                "rule_instance_counts": counts,
                "obligations": evaluations,
                "discharged": evaluations - sum(u["instances"] for _, u in uniq.items()),
                "functions_analysed": functions,
                "configurations": cfgnames,
                "samples": samples[:12] if samples else [{"note": "no sample recorded"}],
                "not_decided": spec.get("not_decided", ""),
                "notes": notes,
                "shared_analysis_wall_s": res.get("wall"),
                "shared_analysis_cached": bool(res.get("cached")),
                "exhaustive": False,
            },
            "assumptions": spec.get("assumptions", registry.COMMON_ASSUMPTIONS),
            "wall_s": wall if res.get("cached") else max(wall, res.get("wall", wall)),
            "violations": len(new),
        }
        os.makedirs(os.path.join(VERIF, "evidence"), exist_ok=True)
        with open(os.path.join(VERIF, "evidence", pid + ".json"), "w") as f:
            json.dump(ev, f, indent=1)
    print("%s %s: %d rule instances judged in %d configuration(s), %d violation(s)%s [%.1fs]" % (
        pid, tier, evaluations, len(res["configs"]), len(new), " (shared analysis cached)" if res.get("cached") else "", wall))
    if a.replay:
        return (1 if replay_hit else 0), out_lines
    return rc, out_lines




if __name__ == "__main__":
    main()
