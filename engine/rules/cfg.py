"""CFG utilities over mirfacts function bodies.

`Cfg(fn, debug='skip')` prunes:
  * switches on a local whose reaching definition in the same block is a constant
    (cfg!(..), debug_assert's `if cfg!(debug_assertions)`),
  * with debug='skip' every debug_assert region is skipped regardless of configuration
    (a debug check is an invariant probe that does not exist in release builds; rule G-DBG
    separately requires these regions to be effect free),
  * edges into blocks that inevitably reach `unreachable_unchecked()` / `unreachable`
    ("assume" edges, recorded so that they can be treated as unchecked obligations).
"""

DEBUG_MACROS = ("debug_assert", "debug_assert_eq", "debug_assert_ne")
UNREACHABLE_FNS = ("std::hint::unreachable_unchecked", "core::hint::unreachable_unchecked")
PANIC_ENTRIES = (
    "core::panicking::panic",
    "core::panicking::panic_fmt",
    "core::panicking::panic_display",
    "core::panicking::panic_explicit",
    "core::panicking::assert_failed",
    "core::panicking::panic_bounds_check",
    "core::panicking::unreachable_display",
    "core::panicking::panic_str_2015",
    "core::panicking::panic_const",
    "std::rt::panic_fmt",
    "std::rt::begin_panic",
    "std::rt::begin_panic_handler",
    "core::option::expect_failed",
    "core::option::unwrap_failed",
    "core::result::unwrap_failed",
    "std::option::expect_failed",
    "std::option::unwrap_failed",
    "std::result::unwrap_failed",
)


def is_panic_path(p):
    if p in PANIC_ENTRIES:
        return True
    return p.startswith("core::panicking::") or p.startswith("std::panicking::")


def span_macros(node):
    s = node.get("s") if isinstance(node, dict) else None
    return s["m"] if s else []


def has_debug_macro(node):
    return any(m in DEBUG_MACROS for m in span_macros(node))


def term_succ(t):
    k = t["k"]
    if k == "goto":
        return [t["t"]]
    if k == "switch":
        return [bb for _, bb in t["ts"]] + [t["o"]]
    if k in ("call", "drop", "assert"):
        return [t["t"]] if t.get("t") is not None else []
    return []


def term_unwind(t):
    u = t.get("u")
    return u if isinstance(u, int) else None


def callee_path(t):
    f = t.get("f")
    if not f or f.get("indirect"):
        return None
    return f["path"]


class Cfg:
    def __init__(self, fn, debug="skip"):
        self.fn = fn
        self.blocks = fn.blocks
        n = len(self.blocks)
        self.n = n
        self.debug = debug
        self.debug_switch = set()  # blocks whose terminator is an `if cfg!(debug_assertions)`
        self.const_taken = {}  # bb -> (value, target) for const-pruned switches
        self.succ = [[] for _ in range(n)]
        for i, b in enumerate(self.blocks):
            t = b["t"]
            if t["k"] == "switch":
                cv = self._const_switch_value(b)
                if cv is not None and has_debug_macro(t):
                    self.debug_switch.add(i)
                    if debug == "skip":
                        cv = 0
                if cv is not None:
                    tgt = t["o"]
                    for v, bb in t["ts"]:
                        if v == cv:
                            tgt = bb
                    self.const_taken[i] = (cv, tgt)
                    self.succ[i] = [tgt]
                    continue
            self.succ[i] = list(dict.fromkeys(term_succ(t)))
        # doomed blocks: all paths reach unreachable_unchecked / unreachable
        self.doomed = set()
        for i, b in enumerate(self.blocks):
            t = b["t"]
            if t["k"] == "unreachable":
                self.doomed.add(i)
            elif t["k"] == "call" and callee_path(t) in UNREACHABLE_FNS:
                self.doomed.add(i)
        changed = True
        while changed:
            changed = False
            for i in range(n):
                if i in self.doomed or self.blocks[i]["cleanup"]:
                    continue
                s = self.succ[i]
                t = self.blocks[i]["t"]
                if s and all(x in self.doomed for x in s) and t["k"] in ("goto", "switch"):
                    self.doomed.add(i)
                    changed = True
        # reachable set from entry over pruned graph (doomed edges kept for reachability)
        self.reach = self._reach(0)
        self._dom = None
        self._backedges = None

    def _const_switch_value(self, b):
        t = b["t"]
        d = t["d"]
        pl = d.get("m") or d.get("c")
        if d.get("k") is not None:
            return d["k"].get("v")
        if pl is None or pl["p"]:
            return None
        loc = pl["l"]
        val = None
        for st in b["st"]:
            if st["k"] == "assign" and st["p"]["l"] == loc and not st["p"]["p"]:
                rv = st["rv"]
                if rv["k"] == "use" and "k" in rv["a"] and "v" in rv["a"]["k"]:
                    val = rv["a"]["k"]["v"]
                else:
                    val = None
        return val

    def _reach(self, start):
        seen = {start}
        st = [start]
        while st:
            x = st.pop()
            for y in self.succ[x]:
                if y not in seen:
                    seen.add(y)
                    st.append(y)
        return seen

    # ------------------------------------------------------------------ dominators
    def dominators(self):
        if self._dom is not None:
            return self._dom
        nodes = sorted(self.reach)
        preds = {x: [] for x in nodes}
        for x in nodes:
            for y in self.succ[x]:
                if y in preds:
                    preds[y].append(x)
        dom = {x: set(nodes) for x in nodes}
        dom[0] = {0}
        changed = True
        # reverse post order
        order = self.rpo()
        while changed:
            changed = False
            for x in order:
                if x == 0:
                    continue
                ps = [dom[p] for p in preds[x]]
                new = set.intersection(*ps) if ps else set()
                new = new | {x}
                if new != dom[x]:
                    dom[x] = new
                    changed = True
        self._dom = dom
        return dom

    def rpo(self):
        seen = set()
        out = []

        def dfs(x):
            stack = [(x, iter(self.succ[x]))]
            seen.add(x)
            while stack:
                node, it = stack[-1]
                adv = False
                for y in it:
                    if y not in seen:
                        seen.add(y)
                        stack.append((y, iter(self.succ[y])))
                        adv = True
                        break
                if not adv:
                    out.append(node)
                    stack.pop()

        dfs(0)
        out.reverse()
        return out

    def backedges(self):
        if self._backedges is not None:
            return self._backedges
        dom = self.dominators()
        be = set()
        for x in self.reach:
            for y in self.succ[x]:
                if y in dom.get(x, ()):
                    be.add((x, y))
        self._backedges = be
        return be

    def loop_body(self, header):
        """Natural loop blocks of all back edges into `header`."""
        body = {header}
        preds = {}
        for x in self.reach:
            for y in self.succ[x]:
                preds.setdefault(y, []).append(x)
        st = [x for (x, h) in self.backedges() if h == header]
        for x in st:
            body.add(x)
        while st:
            x = st.pop()
            if x == header:
                continue
            for p in preds.get(x, []):
                if p not in body:
                    body.add(p)
                    st.append(p)
        return body

    def loop_headers(self):
        return sorted({h for (_, h) in self.backedges()})

    # ------------------------------------------------------------- debug regions
    def debug_regions(self):
        """For a Cfg built with debug='keep': map debug-switch block -> set of blocks that
        belong to the check (reachable from the taken 'check' edge without passing the join)."""
        assert self.debug == "keep"
        out = {}
        for sw in sorted(self.debug_switch):
            t = self.blocks[sw]["t"]
            skip = None
            for v, bb in t["ts"]:
                if v == 0:
                    skip = bb
            check = t["o"]
            # the join: first block reachable from both arms; the skip arm is `goto join`
            join = skip
            sb = self.blocks[skip]
            if sb["t"]["k"] == "goto":
                join = sb["t"]["t"]
            region = set()
            st = [check]
            while st:
                x = st.pop()
                if x == join or x in region:
                    continue
                region.add(x)
                for y in term_succ(self.blocks[x]["t"]):
                    st.append(y)
            out[sw] = (region, join, self.const_taken.get(sw, (None, None))[0])
        return out
