"""Rules over the specimen client crate: generated code and monomorphic instances of
gecs generics (resolved callees), analysed with the same path executor."""
import re

from .core import where_of, cname
from .norm import N, NL, atom, is_call, subterms, contains, strip_generics
from .sym import show
from .r_storage import roles, current_value, strip_epochs, closure_applications, is_some, is_none
from .r_storage2 import loop_item

# ----------------------------------------------------------------------------------
# what the specimen declares (the independent oracle for matching: written by hand from
# specimen/src/main_world.rs, not derived from gecs output)
# ----------------------------------------------------------------------------------
WORLD = {
    "ArchOne": (2, ["CompA"]),
    "ArchTwo": (3, ["CompA", "CompZ"]),
    "ArchThree": (7, ["CompA", "CompBox", "CompAl"]),
    "ArchBig": (8, ["K%d" % i for i in range(16)]),
    "ArchDrop": (9, ["CompD", "CompBox"]),
}
ORDER = ["ArchOne", "ArchTwo", "ArchThree", "ArchBig", "ArchDrop"]
COMPONENT_IDS = {("ArchThree", "CompA"): 0, ("ArchThree", "CompBox"): 5, ("ArchThree", "CompAl"): 6, ("ArchTwo", "CompZ"): 1, ("ArchBig", "K15"): 15, ("ArchDrop", "CompBox"): 1}


def matches(params):
    """Independent matcher: params is a list of ('comp', name) | ('oneof', [names]) | ('entity', arch) | ('any',)"""
    out = []
    for a in ORDER:
        comps = WORLD[a][1]
        ok = True
        for p in params:
            if p[0] == "comp":
                ok = ok and p[1] in comps
            elif p[0] == "oneof":
                ok = ok and len([c for c in p[1] if c in comps]) == 1
            elif p[0] == "entity":
                ok = ok and p[1] == a
        if ok:
            out.append(a)
    return out


ALLK = [("comp", "CompA"), ("any",)]
QUERIES = {
    "find_mut__entity": ALLK, "find_mut__direct": ALLK, "find_mut__any": ALLK, "find_mut__directany": ALLK,
    "find_mut__typed": [("comp", "CompBox"), ("comp", "CompAl"), ("entity", "ArchThree")],
    "find_mut__oneof": [("oneof", ["CompZ", "CompAl", "K3"]), ("comp", "CompA")],
    "find_mut__partial": [("comp", "CompBox")],
    "find_mut__cfg": [("comp", "CompA"), ("comp", "CompBox")],
    "find_borrow__entity": [("comp", "CompA"), ("comp", "CompBox")], "find_borrow__direct": [("comp", "CompA"), ("comp", "CompBox")],
    "find_borrow__any": ALLK, "find_borrow__directany": ALLK,
    "find_borrow__typed": [("comp", "CompBox"), ("comp", "CompAl"), ("entity", "ArchThree")],
    "find_borrow__oneof": [("oneof", ["CompZ", "CompAl", "K3"]), ("comp", "CompA")],
    "iter_borrow__oneof": [("oneof", ["CompZ", "CompAl", "K3"]), ("comp", "CompA")],
    "iter_borrow__oneof_mut": [("oneof", ["CompD", "CompAl"]), ("comp", "CompBox")],
    "iter_mut__all": ALLK, "iter_mut__typed": [("comp", "CompBox"), ("comp", "CompAl"), ("entity", "ArchThree")],
    "iter_mut__break": [("comp", "CompA")], "iter_mut__oneof": [("oneof", ["CompZ", "CompAl", "K3"])],
    "iter_mut__cfg": [("comp", "CompA"), ("comp", "CompBox")], "iter_mut__big": [("comp", "K0"), ("comp", "K15"), ("comp", "K7")],
    "iter_borrow__all": ALLK, "iter_borrow__typed": [("comp", "CompBox"), ("comp", "CompAl"), ("entity", "ArchThree")], "iter_borrow__break": [("comp", "CompA")],
    "iter_mut__cfgstack": [("comp", "CompA")], "iter_borrow__cfg": [("comp", "CompA")], "iter_destroy__cfg": [("comp", "CompA")],
    "iter_destroy__all": ALLK, "iter_destroy__typed": [("comp", "CompBox"), ("entity", "ArchThree")], "iter_destroy__unit": [("comp", "CompA")], "iter_destroy__step": [("comp", "CompA")],
}


def mono(ctx):
    return ctx.spec.mono


def inst(ctx, key):
    return mono(ctx).fns.get(key)


def root(ctx, R, name):
    f = inst(ctx, "main_world::" + name)
    if f is None:
        R.anchor_missing("specimen root main_world::" + name)
    return f


def mpaths(ctx, f):
    return ctx.paths(f, ctx.mex)


def snake(s):
    return re.sub(r"(?<!^)(?=[A-Z])", "_", s).lower()


# ----------------------------------------------------------------------------------
# SP1: validated-by funnel (C01-R2, C09-R6, C17-R3)
# ----------------------------------------------------------------------------------
KEYTY = re.compile(r"\bentity::(Entity|EntityDirect|EntityAny|EntityDirectAny)\b")
DIRECTTY = re.compile(r"\bentity::(EntityDirect|EntityDirectAny)\b")
TRANSFORMS = ("Option::map", "Option::is_some", "Option::ok", "Result::ok", "Into<U>>::into", "Into::into", "Option::and_then", "Option::as_ref", "Option::as_mut")


def short_fn(path):
    q = strip_generics(path).split("::")
    return "::".join(q[-2:])


class Validator:
    def __init__(self, ctx):
        self.ctx = ctx
        self.memo = {}
        self.why = {}
        self.resolver_paths = set()
        for S in ctx.storages():
            rl = roles(ctx, S)
            for f in rl["entity_resolver"] + rl["direct_resolver"]:
                self.resolver_paths.add(short_fn(f.path))

    def key_params(self, f):
        return [i for i in range(1, f.argc + 1) if KEYTY.search(f.local_ty(i))]

    def validated(self, f, depth=0):
        k = f.key
        if k in self.memo:
            return self.memo[k]
        if short_fn(f.path) in self.resolver_paths and f.krate == "gecs":
            self.memo[k] = True
            return True
        self.memo[k] = True  # optimistic for recursion
        ps = mpaths(self.ctx, f)
        ok = True
        if ps is None:
            ok = False
            self.why[k] = "path enumeration failed"
        else:
            kps = self.key_params(f)
            for p in ps:
                if p.end != "return":
                    continue
                ret = N(p.ret)
                if self.refusing(ret):
                    continue
                w = self.witness(f, p, ret, kps, depth)
                if w is not True:
                    ok = False
                    self.why[k] = w
                    break
        self.memo[k] = ok
        return ok

    def refusing(self, ret):
        if ret == ("const", False):
            return True
        if ret[0] == "agg" and ret[3] in ("None", "Err"):
            return True
        if is_call(ret, "from_residual"):
            return True
        return False

    def witness(self, f, p, ret, kps, depth):
        cands = []
        for e in p.effects:
            if e[0] != "call" or e[7]:
                continue
            g = mono(self.ctx).lookup(e[8]) if e[8] and not e[8].get("indirect") else None
            if g is None or not self.key_params(g):
                continue
            # kind-faithful: a direct key is validated by a function that takes a direct key (in the end the direct resolver, which
            # compares the archetype version); re-deriving an Entity from the dense index and validating *that* accepts stale direct keys
            df = {bool(DIRECTTY.search(f.local_ty(i))) for i in kps}
            dg = {bool(DIRECTTY.search(g.local_ty(i))) for i in self.key_params(g)}
            if f.krate == "gecs" and df and dg and not (df & dg):
                continue  # (only inside gecs: generated code dispatches over the total select enum, whose arms mix kinds)
            args = [N(a) for a in e[3]]
            linked = any(contains(a, lambda x: x[0] == "arg" and x[1] in kps) for a in args)
            if not linked:
                continue
            cands.append((e, g, ("call", e[2], tuple(args))))
        for (e, g, val) in cands:
            if not self.validated(g, depth + 1):
                continue
            sval = strip_epochs(val)
            # (ii-a) the result is a transform of the witness' result
            sret = strip_epochs(ret)
            if sret == sval:
                return True
            cur = sret
            okt = False
            for _ in range(6):
                if cur == sval:
                    okt = True
                    break
                if cur[0] == "call" and cur[2] and any(cname(cur[1]).endswith(t) for t in TRANSFORMS):
                    cur = cur[2][0]
                    continue
                break
            if okt:
                return True
            # (ii-b) a path condition tests the witness' result for success
            for c in p.conds:
                if c[2] != "branch":
                    continue
                V = strip_epochs(N(c[0]))
                vals = c[1]
                if V[0] == "discr":
                    x = V[1]
                    if is_call(x, "branch") and x[2] and x[2][0] == sval and (vals == (0,) or vals == ("not", 1)):
                        return True
                    if x == sval and (vals == (1,) or vals == ("not", 0)):
                        return True
                if is_call(V, "Option::is_some") and V[2][0] == sval and (vals == ("not", 0) or vals == (1,)):
                    return True
        return "%s returns an accepting value (%s) on a path that does not depend on a successful key resolution (calls on the key: %s)" % (
            f.key, show(ret)[:120], [cname(c[0][2]) for c in cands] or "none")

    def explain(self, f, seen=None):
        seen = seen or set()
        k = f.key
        if k in seen:
            return []
        seen.add(k)
        out = []
        if k in self.why:
            out.append(self.why[k])
        ps = mpaths(self.ctx, f)
        for p in ps or ():
            for e in p.effects:
                if e[0] == "call" and not e[7] and e[8] and not e[8].get("indirect"):
                    g = mono(self.ctx).lookup(e[8])
                    if g is not None and self.memo.get(g.key) is False:
                        out.extend(self.explain(g, seen))
        return out


FUNNEL_ROOTS = [
    "w_contains__%s", "w_to_direct__%s", "w_destroy__%s", "a_contains__%s", "a_resolve__%s", "a_to_direct__%s", "a_view__%s", "a_borrow__%s", "a_destroy__%s",
    "find_mut__%s", "find_borrow__%s",
]
KINDS = ["entity", "direct", "any", "directany"]


def rule_funnel(ctx, R):
    V = Validator(ctx)
    for pat in FUNNEL_ROOTS + ["w_view__%s", "w_borrow__%s"]:
        kinds = KINDS if not pat.startswith(("w_view", "w_borrow")) else KINDS[:2]
        for kind in kinds:
            name = pat % kind
            f = root(ctx, R, name)
            if f is None:
                continue
            ok = V.validated(f)
            rule = "C09-R6" if "to_direct" in name else ("C17-R3" if "destroy" in name else "C01-R2")
            why = V.explain(f)
            site = why[-1] if why else V.why.get(f.key, "")
            # key the violation by the function that breaks the chain, not by the root
            ident = "funnel|%s" % name
            if ok:
                R.ok(rule, "funnel|%s" % name, "every accepting path of %s depends on a successful key resolution (resolver reached through %d validated functions)" % (name, len([1 for v in V.memo.values() if v])), fn=f.key)
            else:
                R.fail(rule, ident, "entry %s: %s" % (name, site), where_of(f), fn=f.key)
            if kind in ("direct", "directany") and rule != "C09-R6":
                # C09: every entry taking a direct key accepts it only on the strength of the direct resolver
                R.check(ok, "C09-R6", "funnel-direct|%s" % name, "direct key validated by the direct resolver on every accepting path", "entry %s: %s" % (name, site), where_of(f), fn=f.key)


# ----------------------------------------------------------------------------------
# SP2: mint freshness and identity in the five macro expansions (C09-R4, C07-R5)
# ----------------------------------------------------------------------------------
def spec_instances(ctx, prefix):
    return [f for k, f in sorted(mono(ctx).fns.items()) if k.startswith(prefix)]


def rule_mints(ctx, R):
    n = 0
    for qname in sorted(QUERIES):
        base = "main_world::" + qname
        top = inst(ctx, base)
        if top is None:
            R.anchor_missing("specimen root " + base)
            continue
        macro = qname.split("__")[0]
        units = []
        for f in spec_instances(ctx, base):
            # closures are judged with their captures bound to the enclosing function's values (below);
            # stand-alone only the root and, for the iter macros, the expansion closure itself
            if f.key != base and not (f.key == base + "::{closure#0}" and not macro.startswith("find")):
                continue
            ps = mpaths(ctx, f)
            units.append((f, ps))
            # closures applied in their parent's context (find: `|found| closure(...)` passed to Option::map)
            for (cf, pp, e, cps) in closure_applications(ctx, f, ctx.mex):
                units.append((cf, cps))
        for (f, ps) in units:
            for p in ps or ():
                for i, e in enumerate(p.effects):
                    if e[0] != "call" or not cname(e[2]).endswith("new_entity_direct"):
                        continue
                    idx, ver = N(e[3][0]), N(e[3][1])
                    key = "%s|mint" % qname
                    n += 1
                    # version: a load of some `... .version` location, fresh at the mint
                    okv = ver[0] == "load" and ver[1][0] == "field" and ver[1][2] == "version"
                    fresh = False
                    if okv:
                        cur = current_value(p.effects, i, ver[1])
                        fresh = cur == ver
                    if macro == "iter_destroy":
                        R.check(okv and fresh, "C07-R5", "%s|version-fresh" % key, "direct handle handed to the closure designates the visited entity (generation current at the mint)",
                                "ecs_iter_destroy!: direct handle minted with a generation read before an earlier iteration's destroy (%s)" % show(ver), where_of(f, e[5]), fn=f.key)
                    R.check(okv and fresh, "C09-R4", "%s|version-fresh" % key, "direct handle minted with the archetype generation current at the mint",
                            "ecs_%s!: the direct handle handed to the closure is minted with %s, which is %s at the mint (a structural change of that archetype can lie between the read and the mint, e.g. across loop iterations)" % (
                                macro, show(ver), "not the archetype's version field" if not okv else "stale"), where_of(f, e[5]), fn=f.key)
                    # index: loop item / found.index of the same iteration
                    item = loop_item(idx)
                    oki = item is not None or contains(idx, lambda x: x[0] in ("carg", "arg")) or is_call(idx, "index")
                    R.check(oki, "C09-R4", "%s|index" % key, "index = loop index / found.index() of this very visit", "minted index is %s" % show(idx)[:120], where_of(f, e[5]), fn=f.key)
    R.check(n >= 20, "C09-R4", "mint-sites", "%d mint sites judged" % n, "only %d mint sites found in the specimen expansions (expected >= 20)" % n, None)


# ----------------------------------------------------------------------------------
# SP3: loop shapes (C06-R3, C07-R1/R2, C05-R7 loop count)
# ----------------------------------------------------------------------------------
def loop_segments(p):
    """Split a path's effects at loop markers: returns list of (header, effects-after-marker)."""
    segs = []
    cur = None
    for e in p.effects:
        if e[0] == "loop":
            cur = (e[1], [])
            segs.append(cur)
        elif cur is not None:
            cur[1].append(e)
    return segs


def user_closure_calls(effs, base):
    return [e for e in effs if e[0] == "call" and e[2].startswith(base + "::{closure#0}::{closure#")]


def rule_iter_loops(ctx, R):
    for qname in sorted(QUERIES):
        if not qname.startswith("iter_"):
            continue
        macro = qname.split("__")[0]
        base = "main_world::" + qname
        f = inst(ctx, base + "::{closure#0}")
        if f is None:
            R.anchor_missing("expansion closure " + base + "::{closure#0}")
            continue
        ps = mpaths(ctx, f)
        # evaluate the expansion closure with its captures bound to the enclosing function's
        # values, so that world fields (w.arch_xxx) are visible in the locations
        top = inst(ctx, base)
        if top is not None:
            for (cf, pp, e, cps) in closure_applications(ctx, top, ctx.mex):
                if cf.key == f.key and cps is not None:
                    ps = cps
        if ps is None:
            R.fail("SHAPE", qname + "|paths", "path enumeration failed", where_of(f), fn=f.key)
            continue
        want = matches(QUERIES[qname])
        headers = []
        for p in ps:
            for e in p.effects:
                if e[0] == "loop" and e[1] not in headers:
                    headers.append(e[1])
        R.check(len(headers) == len(want), "C05-R7", qname + "|loops==matched", "one loop per matched archetype %s" % want,
                "ecs_%s! expands to %d loops; the independent matcher says the query matches %s" % (macro, len(headers), want), where_of(f), fn=f.key)
        # which archetype field each loop walks, in declaration order
        walked_by_header = {}
        destroy = macro == "iter_destroy"
        for p in ps:
            segs = loop_segments(p)
            if not segs:
                continue
            header, effs = segs[-1]
            # the iterator this loop runs on
            nx = [e for e in effs if e[0] == "call" and cname(e[2]).endswith("next")]
            if not nx:
                continue
            it = N(nx[0][3][0])
            rng = None
            if it[0] == "loopvar" and it[3] is not None and is_call(it[3], "into_iter"):
                src = it[3][2][0]
                if destroy:
                    if is_call(src, "rev"):
                        rng = src[2][0]
                else:
                    rng = src
            okr = rng is not None and rng[0] == "agg" and rng[2] == "std::ops::Range" and dict(rng[4])["start"] == ("const", 0)
            lenv = dict(rng[4])["end"] if okr else None
            oklen = okr and lenv[0] == "load" and lenv[1][0] == "field" and lenv[1][2] == "len" and lenv[2] == 0
            archf = None
            if oklen:
                L = lenv[1]
                while L is not None and L[0] == "field":
                    if L[2].startswith("arch_"):
                        archf = L[2]
                    L = L[1]
                if archf is None:
                    # archetype reached through the closure capture: name unknown here, use the location text
                    archf = show(("load", lenv[1], 0))
            k2 = "%s|loop@%s" % (qname, archf)
            R.check(bool(oklen), "C07-R1" if destroy else "C06-R3", k2 + "|range", "%s over Range(0, len) with len read once before the loop" % ("descending walk" if destroy else "ascending walk"),
                    "loop iterates %s; expected %sRange(0, archetype.len()) with len read before the loop" % (show(it)[:160], "Rev of " if destroy else ""), where_of(f), fn=f.key)
            walked_by_header[header] = archf
            # per-iteration judgement
            some = [c for c in p.conds if c[2] == "branch" and N(c[0])[0] == "discr" and is_call(N(c[0])[1], "next") and c[4] >= 0]
            calls = user_closure_calls(effs, base)
            is_body = any(atomc(c) for c in p.conds if is_next_some(c, nx[0]))
            if not is_body:
                continue
            R.check(len(calls) == 1, "C06-R3" if not destroy else "C07-R1", k2 + "|one-call-per-visit", "exactly one closure call per visited index",
                    "an iteration path calls the user closure %d times" % len(calls), where_of(f), fn=f.key)
            if calls:
                cargs = N(calls[0][3][1]) if len(calls[0][3]) > 1 else None
                idxs = set()
                for x in subterms(cargs) if cargs else ():
                    li = loop_item(x)
                    if li is not None:
                        idxs.add(strip_epochs(x))
                R.check(len(idxs) == 1, "C02-R5", k2 + "|one-index", "all closure arguments of a visit are taken at the one loop index",
                        "closure arguments use %d different index expressions" % len(idxs), where_of(f, calls[0][5]), fn=f.key)
                if destroy:
                    # slices re-fetched inside the iteration, before the closure call
                    gs = [e for e in effs if e[0] == "call" and cname(e[2]).endswith("get_all_slices_mut")]
                    R.check(bool(gs) and effs.index(gs[0]) < effs.index(calls[0]), "C07-R1", k2 + "|slices-refetched", "slices fetched anew in every iteration before the visit",
                            "get_all_slices_mut is not called inside the iteration before the closure call", where_of(f), fn=f.key)
            # arms
            dcalls = [e for e in effs if e[0] == "call" and cname(e[2]).endswith("Archetype::destroy")]
            steps = step_set(p, calls, 4 if destroy else 2)
            after_loops = False
            if calls:
                after = p.effects[p.effects.index(calls[0]):]
                after_loops = any(e[0] == "loop" for e in after)
            ends_back = isinstance(p.end, tuple) and p.end[0] == "backedge" and p.end[1] == header
            if steps is None:
                continue
            for step in sorted(steps):
              if not destroy:
                if step == 0:
                    R.check(ends_back, "C06-R3", k2 + "|Continue", "Continue -> next index of the same archetype", "EcsStep::Continue arm ends with %s" % (p.end,), where_of(f), fn=f.key)
                elif step == 1:
                    R.check(p.end == "return" and not after_loops, "C06-R3", k2 + "|Break", "Break leaves the whole query at once",
                            "EcsStep::Break arm %s" % ("continues into another archetype's loop" if after_loops else "ends with %s" % (p.end,)), where_of(f), fn=f.key)
              else:
                  exp = {0: (True, 0), 1: (False, 0), 2: (True, 1), 3: (False, 1)}.get(step)
                  nm = {0: "Continue", 1: "Break", 2: "ContinueDestroy", 3: "BreakDestroy"}.get(step, str(step))
                  if exp is None:
                      continue
                  cont, nd = exp
                  okend = ends_back if cont else (p.end == "return" and not after_loops)
                  R.check(okend and len(dcalls) == nd, "C07-R2", k2 + "|" + nm, "%s -> %s, %d destroy" % (nm, "next index" if cont else "leave the query", nd),
                          "EcsStepDestroy::%s arm: ends with %s%s and destroys %d entities; expected %s and %d" % (nm, p.end, " (enters another loop)" if after_loops else "", len(dcalls), "back-edge" if cont else "return", nd), where_of(f), fn=f.key)
                  if nd == 1 and dcalls and calls:
                      ent = N(dcalls[0][3][1])
                      cargs = N(calls[0][3][1])
                      cidx = {strip_epochs(x) for x in subterms(cargs) if loop_item(x) is not None}
                      eidx = {strip_epochs(x) for x in subterms(ent) if loop_item(x) is not None}
                      from_entities = contains(ent, lambda x: x[0] == "load" and "entities" in show(x))
                      R.check(eidx == cidx and len(eidx) == 1 and from_entities, "C07-R2", k2 + "|" + nm + "-target", "the entity destroyed is entities[idx] of the visit just made",
                              "destroy is called with %s; expected slices.entity[idx] with the visit's idx" % show(ent)[:160], where_of(f, dcalls[0][5]), fn=f.key)
        # every way out of the query is either falling off the end after having entered the loop of every
        # matched archetype, or a Break / BreakDestroy arm: nothing else may end the query early
        for pi, p in enumerate(ps):
            if p.end != "return":
                continue
            segs = loop_segments(p)
            entered = len(segs)
            calls_last = user_closure_calls(segs[-1][1], base) if segs else []
            steps_l = step_set(p, calls_last, 4 if destroy else 2) if calls_last else None
            last_hdr_exhausted = False
            if segs:
                nx2 = [e for e in segs[-1][1] if e[0] == "call" and cname(e[2]).endswith("next")]
                last_hdr_exhausted = any(c[2] == "branch" and N(c[0])[0] == "discr" and is_call(N(c[0])[1], "next") and c[1] in ((0,), ("not", 1)) and c[4] >= p.effects.index(nx2[0]) for c in p.conds) if nx2 else False
            is_break = bool(calls_last) and bool(steps_l) and steps_l <= ({1} if not destroy else {1, 3}) and not last_hdr_exhausted
            # also a C05 matter: a query that can leave early does not act on every archetype it matched
            for rid_ in (("C06-R3" if not destroy else "C07-R1"), "C05-R9"):
                R.check(is_break or (entered == len(want) and last_hdr_exhausted), rid_, "%s|exit#%d" % (qname, pi),
                        "the query ends only by %s or after every matched archetype was walked" % ("Break" if not destroy else "Break/BreakDestroy"),
                        "ecs_%s! can return after entering %d of %d archetype loops without a Break (guards: %s): later matched archetypes are never visited" % (
                            macro, entered, len(want), " & ".join(show(N(c[0]))[:60] for c in p.conds if c[2] == "branch")[-300:]), where_of(f), fn=f.key)
        want_fields = ["arch_" + snake(a)[5:] if snake(a).startswith("arch_") else snake(a) for a in want]
        # program order = order of the loop markers on the path that enters the most loops
        longest = max(ps, key=lambda q: len([1 for e in q.effects if e[0] == "loop"]))
        hdr_order = [e[1] for e in longest.effects if e[0] == "loop"]
        walked = [x for _, x in sorted(((hdr_order.index(h) if h in hdr_order else 99, w) for h, w in walked_by_header.items()))]
        got = [w for w in walked if w and w.startswith("arch_")]
        if got:
            R.check(got == want_fields, "C05-R7", qname + "|archetypes", "walks %s in declaration order" % want_fields,
                    "ecs_%s! walks world fields %s; the independent matcher expects %s" % (macro, got, want_fields), where_of(f), fn=f.key)
    # From<()> / From<EcsStep> conversions
    for path, want in (("<iter::EcsStep as std::convert::From<()>>::from", "Continue"), ("<iter::EcsStepDestroy as std::convert::From<()>>::from", "Continue")):
        fn = ctx.gecs.fns.get(path)
        if fn is None:
            R.anchor_missing(path)
            continue
        ps = ctx.paths(fn)
        ok = ps is not None and len(ps) == 1 and N(ps[0].ret)[0] == "agg" and N(ps[0].ret)[3] == want
        R.check(ok, "C06-R3", "From<()>|%s" % path.split("::")[1].split(" ")[0], "() converts to Continue", "%s does not yield %s" % (path, want), where_of(fn), fn=fn.key)
    fn = ctx.gecs.fns.get("<iter::EcsStepDestroy as std::convert::From<iter::EcsStep>>::from")
    if fn is None:
        R.anchor_missing("From<EcsStep> for EcsStepDestroy")
    else:
        ps = ctx.paths(fn)
        okm = ps is not None and len(ps) == 2
        if okm:
            for p in ps:
                c = [x for x in p.conds if x[2] == "branch"]
                ret = N(p.ret)
                v = c[0][1] if c else None
                want = "Continue" if v in ((0,), ("not", 1)) else "Break"
                okm = okm and ret[0] == "agg" and ret[3] == want
        R.check(okm, "C07-R2", "From<EcsStep>", "EcsStep::Continue/Break map to EcsStepDestroy::Continue/Break", "From<EcsStep> for EcsStepDestroy maps wrongly", where_of(fn), fn=fn.key)


def is_next_some(c, nxe):
    V = N(c[0])
    return c[2] == "branch" and V[0] == "discr" and is_call(V[1], "next") and (c[1] == (1,) or c[1] == ("not", 0))


def atomc(c):
    return True


def step_set(p, calls, nvariants=4):
    """Which EcsStep(Destroy) discriminants are consistent with every test this iteration path makes on the value the
    closure returned (arms may be merged and refined by a later test on the same value). None: no closure call.
    A closure returning () / a constant has From<()> inlined to Continue."""
    if not calls:
        return None
    cv = ("call", calls[0][2], tuple(N(a) for a in calls[0][3]))
    possible = set(range(nvariants))
    tested = False
    for c in p.conds:
        if c[2] != "branch":
            continue
        V = N(c[0])
        inner = V[1] if V[0] == "discr" else None
        if inner is not None and inner[0] == "call" and len(inner[2]) == 1 and "From<" in inner[1] and "EcsStep>" in inner[1]:
            inner = inner[2][0]  # EcsStepDestroy::from(EcsStep) keeps Continue/Break (rule From<EcsStep>)
        if inner is not None and strip_epochs(inner) == strip_epochs(cv):
            vals = c[1]
            tested = True
            if vals and vals[0] != "not":
                possible &= set(vals)
            else:
                possible -= set(vals[1:])
    if not tested:
        return {0}
    return possible


def step_value(p, calls):
    s_ = step_set(p, calls)
    if s_ is None:
        return None
    return sorted(s_)[0] if len(s_) == 1 else None


# ----------------------------------------------------------------------------------
# SP4: find dispatch / fall-through (C05-R5, C05-R7)
# ----------------------------------------------------------------------------------
def rule_find_dispatch(ctx, R):
    for qname in sorted(QUERIES):
        if not qname.startswith("find_"):
            continue
        base = "main_world::" + qname
        f = inst(ctx, base)
        if f is None:
            R.anchor_missing("specimen root " + base)
            continue
        ps = mpaths(ctx, f)
        want = matches(QUERIES[qname])
        n = len(ORDER)
        want_vals = sorted([ORDER.index(a) for a in want] + [ORDER.index(a) + n for a in want])
        got_vals = []
        for p in ps or ():
            if p.end != "return":
                continue
            ret = N(p.ret)
            sw = [c for c in p.conds if c[2] == "branch" and N(c[0])[0] == "discr"]
            ucalls = [e for e in p.effects if e[0] == "call" and (cname(e[2]).endswith("Option::map"))]
            if is_none(ret) and not ucalls:
                # fall-through arm
                closure_called = any(e[0] == "call" and "{closure" in e[2] for e in p.effects)
                R.check(not closure_called, "C05-R5", qname + "|fall-through", "unmatched archetype: None without running the closure", "the fall-through arm runs a closure", where_of(f), fn=f.key)
                continue
            if sw:
                vals = sw[0][1]
                if vals and vals[0] != "not":
                    v = vals[0]
                    got_vals.append(v)
                    arch = ORDER[v % n]
                    # the arm must fetch from that archetype's own field
                    field = "arch_" + snake(arch)[5:]
                    fetch = [e for e in p.effects if e[0] == "call" and (cname(e[2]).endswith("Archetype::view") or cname(e[2]).endswith("Archetype::borrow"))]
                    okf = bool(fetch) and field in show(N(fetch[0][3][0]))
                    R.check(okf, "C05-R5", "%s|arm(%d)" % (qname, v), "variant %d (%s%s) fetches from world.%s" % (v, arch, "Direct" if v >= n else "", field),
                            "match arm for SelectTotal variant %d fetches from %s; expected world.%s" % (v, show(N(fetch[0][3][0]))[:100] if fetch else None, field), where_of(f), fn=f.key)
                    # the closure is only reached through Option::map of the fetch result
                    # (the receiver of the map is whatever the fetch inlines to: view/borrow -> resolve_* -> get_view_mut/begin_borrow -> resolve)
                    okm = is_call(ret, "Option::map") and contains(ret[2][0], lambda x: x[0] == "call" and any(k_ in x[1] for k_ in ("resolve_for", "resolve_view", "resolve_borrow", "get_view", "begin_borrow", "Archetype::view", "Archetype::borrow", "::resolve")) and field in show(x))
                    R.check(okm, "C05-R5", "%s|arm(%d)-map" % (qname, v), "closure only runs inside .map of the fetch", "arm returns %s" % show(ret)[:120], where_of(f), fn=f.key)
        R.check(sorted(got_vals) == want_vals, "C05-R7", qname + "|arms==matched", "match arms %s == matched archetypes %s (typed and direct)" % (sorted(got_vals), want),
                "ecs_%s! has arms for SelectTotal variants %s; the independent matcher expects %s (archetypes %s)" % (qname.split("__")[0], sorted(got_vals), want_vals, want), where_of(f), fn=f.key)


# ----------------------------------------------------------------------------------
# SP5: generated dispatch tables (C14-R5), constants (C15), sealed callbacks (C10-R3)
# ----------------------------------------------------------------------------------
def const_of(ctx, arch, world="main_world::ecs_spec_world_sealed"):
    k = "<%s::%s as gecs::traits::Archetype>::ARCHETYPE_ID" % (world, arch)
    c = ctx.spec.consts.get(k)
    return c.get("v") if c else None


def rule_tables(ctx, R):
    sealed = "main_world::ecs_spec_world_sealed"
    for a in ORDER:
        v = const_of(ctx, a)
        R.check(v == WORLD[a][0], "C15-R7", "ARCHETYPE_ID|%s" % a, "%s::ARCHETYPE_ID == %d (discriminant rule, independent oracle)" % (a, WORLD[a][0]),
                "%s::ARCHETYPE_ID is %s; the discriminant rule gives %d" % (a, v, WORLD[a][0]), None)
    for (a, c), want in sorted(COMPONENT_IDS.items()):
        k = "<%s::%s as gecs::traits::ArchetypeHas<main_world::%s>>::COMPONENT_ID" % (sealed, a, c)
        cv = ctx.spec.consts.get(k, {}).get("v")
        R.check(cv == want, "C15-R7", "COMPONENT_ID|%s.%s" % (a, c), "COMPONENT_ID == %d" % want, "<%s as ArchetypeHas<%s>>::COMPONENT_ID is %s; the discriminant rule gives %d" % (a, c, cv, want), None)
    nk = "<%s::SpecWorld as gecs::traits::World>::NUM_ARCHETYPES" % sealed
    nv = ctx.spec.consts.get(nk, {}).get("v")
    R.check(nv == len(ORDER), "C15-R7", "NUM_ARCHETYPES", "NUM_ARCHETYPES == %d" % len(ORDER), "NUM_ARCHETYPES is %s" % nv, None)
    # TryFrom dispatch tables
    tables = [
        ("<%s::SelectEntity as std::convert::TryFrom<gecs::entity::EntityAny>>::try_from" % sealed, "SelectEntity", False),
        ("<%s::SelectEntityDirect as std::convert::TryFrom<gecs::entity::EntityDirectAny>>::try_from" % sealed, "SelectEntityDirect", False),
        ("<%s::SelectArchetype as std::convert::TryFrom<gecs::entity::EntityAny>>::try_from" % sealed, "SelectArchetype", False),
        ("<%s::SelectArchetype as std::convert::TryFrom<u8>>::try_from" % sealed, "SelectArchetype", False),
        ("<%s::__SpecWorldSelectTotal as std::convert::TryFrom<gecs::entity::EntityAny>>::try_from" % sealed, "__SpecWorldSelectTotal", False),
        ("<%s::__SpecWorldSelectTotal as std::convert::TryFrom<gecs::entity::EntityDirectAny>>::try_from" % sealed, "__SpecWorldSelectTotal", True),
    ]
    ids = {WORLD[a][0]: a for a in ORDER}
    for key, enum, direct in tables:
        f = inst(ctx, key) or ctx.spec.fns.get(key)
        short = "%s<-%s" % (enum, key.split("TryFrom<")[1].split(">")[0].split("::")[-1])
        if f is None:
            R.anchor_missing("generated " + key)
            continue
        ps = mpaths(ctx, f) if f.key in mono(ctx).fns else ctx.paths(f, ctx.specex)
        # a table may hand its key's id to another judged table of the same enum (whose variants carry no payload)
        if ps is not None and len(ps) == 1 and ps[0].end == "return" and not [c for c in ps[0].conds if c[2] == "branch"]:
            r0 = N(ps[0].ret, keep=True)
            others = [k2 for (k2, e2, d2) in tables if e2 == enum and k2 != key]
            if r0[0] == "call" and any(r0[1] == k2 or r0[1].endswith(k2.split("::", 1)[-1]) for k2 in others) and len(r0[2]) == 1:
                a0 = r0[2][0]
                id_of_arg = (is_call(a0, "archetype_id") and a0[2] and a0[2][0] in (("arg", 1), ("ref", ("arg", 1)), ("refv", ("arg", 1)))) or a0 == ("cast", "IntToInt", ("vfield", ("arg", 1), "key"), "u8") or show(a0) in ("arg1.key as u8",)
                payload_free = enum == "SelectArchetype"
                R.check(bool(id_of_arg and payload_free), "C14-R5", short + "|delegates", "hands archetype_id(key) to the %s table judged separately" % r0[1].split(" as ")[-1][:40],
                        "%s forwards %s to %s" % (short, show(a0)[:80], r0[1][:80]), where_of(f), fn=f.key)
                if id_of_arg and payload_free:
                    continue
        seen = {}
        other_ok = False
        for p in ps or ():
            if p.end != "return":
                R.fail("C14-R5", short + "|exit", "dispatch has a non-returning path", where_of(f), fn=f.key)
                continue
            ret = N(p.ret)
            sw = [c for c in p.conds if c[2] == "branch"]
            if not sw:
                continue
            vals = sw[0][1]
            if vals and vals[0] == "not":
                other_ok = ret[0] == "agg" and ret[3] == "Err" and ret[4][0][1][0] == "agg" and ret[4][0][1][3] == "InvalidEntityType" and sorted(vals[1:]) == sorted(ids)
                R.check(other_ok, "C14-R5", short + "|otherwise", "every undeclared id -> Err(InvalidEntityType)", "otherwise-arm returns %s for ids not in %s" % (show(ret), sorted(vals[1:])), where_of(f), fn=f.key)
                continue
            for v in vals:
                arch = ids.get(v)
                okv = arch is not None and ret[0] == "agg" and ret[3] == "Ok"
                if okv:
                    pay = ret[4][0][1]
                    want_variant = arch + ("Direct" if direct else "")
                    okv = pay[0] == "agg" and pay[3] == want_variant
                    if okv and pay[4]:
                        # payload carries the argument unchanged
                        inner = pay[4][0][1]
                        okv = contains(inner, lambda x: x == ("arg", 1))
                R.check(okv, "C14-R5", "%s|id(%d)" % (short, v), "id %d -> variant of %s (whose ARCHETYPE_ID is %d), payload = argument" % (v, arch, v),
                        "id %d is dispatched to %s; expected the variant of archetype %s carrying the argument" % (v, show(ret)[:160], arch), where_of(f), fn=f.key)
                seen[v] = seen.get(v, 0) + 1
        R.check(sorted(seen) == sorted(ids) and all(n == 1 for n in seen.values()), "C14-R5", short + "|complete", "every declared archetype occurs exactly once",
                "dispatch covers ids %s; declared: %s" % (sorted(seen), sorted(ids)), where_of(f), fn=f.key)
    # SelectArchetype::archetype_id
    f = inst(ctx, "%s::SelectArchetype::archetype_id" % sealed) or ctx.spec.fns.get("%s::SelectArchetype::archetype_id" % sealed)
    if f is None:
        R.anchor_missing("generated SelectArchetype::archetype_id")
    else:
        ps = mpaths(ctx, f) if f.key in mono(ctx).fns else ctx.paths(f, ctx.specex)
        got = {}
        for p in ps or ():
            sw = [c for c in p.conds if c[2] == "branch"]
            ret = N(p.ret)
            if sw and ret[0] == "const":
                vals = sw[0][1]
                if vals and vals[0] != "not":
                    got[vals[0]] = ret[1]
                else:
                    rest = [i for i in range(len(ORDER)) if i not in vals[1:]]
                    if len(rest) == 1:
                        got[rest[0]] = ret[1]
        want = {i: WORLD[a][0] for i, a in enumerate(ORDER)}
        R.check(got == want, "C14-R5", "SelectArchetype::archetype_id", "variant i reports the id of archetype i: %s" % want, "SelectArchetype::archetype_id maps %s; expected %s" % (got, want), where_of(f), fn=f.key)
    # From<Entity<A>> impls build the variant of the same A
    for a in ORDER:
        for enum, src in (("SelectEntity", "gecs::entity::Entity"), ("SelectEntityDirect", "gecs::entity::EntityDirect")):
            key = "<%s::%s as std::convert::From<%s<%s::%s>>>::from" % (sealed, enum, src, sealed, a)
            f = inst(ctx, key) or ctx.spec.fns.get(key)
            if f is None:
                continue
            ps = mpaths(ctx, f) if f.key in mono(ctx).fns else ctx.paths(f, ctx.specex)
            ok = ps is not None and len(ps) == 1
            if ok:
                ret = N(ps[0].ret)
                ok = ret[0] == "agg" and ret[3] == a and ret[4][0][1] == ("arg", 1)
            R.check(ok, "C14-R5", "From<%s<%s>> for %s" % (src.split("::")[-1], a, enum), "builds variant %s with the argument" % a, "From builds %s" % (show(N(ps[0].ret)) if ps else None), where_of(f), fn=f.key)


SEALED_CALLBACKS = ("raw_new", "raw_get")


def rule_sealed_callbacks(ctx, R):
    n = 0
    for k, f in sorted(mono(ctx).fns.items()):
        ti = f.d.get("trait_item", "")
        last = ti.split("::")[-1] if ti else ""
        tr = f.d.get("impl_trait", "")
        if not re.match(r"^(Components|View|Slices)\d+$", tr.split("::")[-1]):
            continue
        ps = mpaths(ctx, f)
        ok = ps is not None and len(ps) == 1 and ps[0].end == "return"
        if ok:
            calls = [e for e in ps[0].effects if e[0] == "call"]
            drops = [e for e in ps[0].effects if e[0] == "drop" and e[6]]
            asserts = [e for e in ps[0].effects if e[0] == "assert"]
            ret = N(ps[0].ret)
            ok = not calls and not drops and not asserts and ret[0] == "agg"
        n += 1
        R.check(ok, "C10-R3", "sealed|%s" % strip_generics(f.key).split(" as ")[0].strip("<")[-40:] + "::" + last, "generated %s is a plain aggregate construction (cannot unwind)" % last,
                "generated callback %s is not a straight-line aggregate construction: it could unwind inside a commit section" % f.key, where_of(f), fn=f.key)
    R.check(n >= 10, "C10-R3", "sealed|count", "%d sealed callback instances judged" % n, "only %d sealed callback instances found" % n, None)
    # user callbacks (closures) are called from generated client code only: no gecs fn calls an unresolved closure
    for path, fn in sorted(ctx.gecs.fns.items()):
        for b in fn.blocks:
            t = b["t"]
            if t["k"] == "call" and not t["f"].get("indirect") and t["f"]["path"] in ("std::ops::FnMut::call_mut", "std::ops::FnOnce::call_once", "std::ops::Fn::call"):
                R.fail("C10-R3", "callback-inside-gecs|%s" % fn.short(), "%s invokes a caller-supplied closure directly; user callbacks must run outside gecs frames" % fn.short(), where_of(fn, t["s"]), fn=fn.key)


# ----------------------------------------------------------------------------------
# SP6: generated event iterator and event/len/clone delegations (C17-R4, C17-R5, C13-R4, C12-R3)
# ----------------------------------------------------------------------------------
def sealed_fn(ctx, key):
    return ctx.spec.fns.get(key)


def rule_event_iter(ctx, R):
    if not ctx.has("events"):
        present = [k for k in ctx.spec.fns if "EcsEventIterator" in k or k.endswith("::iter_created") or k.endswith("::clear_events")]
        R.check(not present, "C17-R5", "no-events|generated", "no event code is generated without the events feature", "event code generated without the feature: %s" % present[:3], None)
        return
    for world, sealed, order in (("main_world", "main_world::ecs_spec_world_sealed", ORDER), ("single_world", "single_world::ecs_ecs_world_sealed", ["ArchSolo"])):
        fields = ["iter_" + snake(a) for a in order]
        n = len(order)
        fnext = sealed_fn(ctx, "<%s::EcsEventIterator<'a> as std::iter::Iterator>::next" % sealed)
        fhint = sealed_fn(ctx, "<%s::EcsEventIterator<'a> as std::iter::Iterator>::size_hint" % sealed)
        if fnext is None or fhint is None:
            R.anchor_missing("generated EcsEventIterator of " + world)
            continue
        wloc = ("field", ("deref", ("arg", 1)), "which")
        for k in range(n):
            ps = ctx.specex.run(fnext, pre_store={wloc: ("const", k)})
            got = set()
            for p in ps:
                nxt = [receiver_field(e[3][0]) for e in p.effects if e[0] == "call" and cname(e[2]).endswith("next")]
                stores = [N(e[2]) for e in p.effects if e[0] == "store" and NL(e[1]) == wloc]
                final = stores[-1][1] if stores and stores[-1][0] == "const" else k
                ret = N(p.ret)
                if is_some(ret):
                    src = [x for x in subterms(ret) if is_call(x, "next")]
                    j = fields.index(nxt[-1]) if nxt and nxt[-1] in fields else -1
                    ok = nxt == fields[k:j + 1] and final == j and bool(src) and receiver_field(src[0][2][0]) == fields[j]
                    got.add(("some", j))
                    R.check(ok, "C17-R5", "%s|next(which=%d)->item(%d)" % (world, k, j), "logs %d..%d exhausted in order, item from log %d, position advanced to %d" % (k, j - 1, j, j),
                            "EcsEventIterator::next from position %d: consults %s, ends at position %s, yields from %s; expected logs %s in order and an item of %s" % (k, nxt, final, receiver_field(src[0][2][0]) if src else None, fields[k:j + 1], fields[j] if j >= 0 else "?"), where_of(fnext), fn=fnext.key)
                elif is_none(ret):
                    ok = nxt == fields[k:] and final == n - 1
                    got.add(("none",))
                    R.check(ok, "C17-R5", "%s|next(which=%d)->None" % (world, k), "None only after every remaining log was exhausted in order",
                            "EcsEventIterator::next from position %d returns None after consulting %s (final position %s); expected all of %s" % (k, nxt, final, fields[k:]), where_of(fnext), fn=fnext.key)
            want = {("some", j) for j in range(k, n)} | {("none",)}
            R.check(got == want, "C17-R5", "%s|next(which=%d)|outcomes" % (world, k), "every log from %d on can yield" % k, "outcomes from position %d are %s; expected %s" % (k, sorted(got), sorted(want)), where_of(fnext), fn=fnext.key)
            # size_hint
            ps = ctx.specex.run(fhint, pre_store={wloc: ("const", k)})
            full = [p for p in ps if p.end == "return" and N(p.ret)[0] == "agg" and N(p.ret)[4][1][1][0] == "agg" and N(p.ret)[4][1][1][3] == "Some"]
            ok = len(full) == 1
            if ok:
                p = full[0]
                hints = [receiver_field(e[3][0]) for e in p.effects if e[0] == "call" and cname(e[2]).endswith("size_hint")]
                ret = N(p.ret)
                lo, hi = ret[4][0][1], ret[4][1][1][4][0][1]
                def addends(v):
                    out = []
                    st = [v]
                    while st:
                        x = st.pop()
                        if x[0] == "bin" and x[1] == "Add":
                            st.extend([x[2], x[3]])
                        elif x != ("const", 0):
                            out.append(x)
                    return out
                lo_f = sorted(receiver_field(x) for x in addends(lo))
                hi_f = sorted(receiver_field(x) for x in addends(hi))
                lo_ok = all(contains(x, lambda y: y[0] == "vfield" and y[2] == "0") for x in addends(lo))
                ok = hints == fields[k:] and lo_f == sorted(fields[k:]) and hi_f == sorted(fields[k:]) and lo_ok
                R.check(ok, "C17-R5", "%s|size_hint(which=%d)" % (world, k), "size_hint = sum over the remaining logs %s, each once" % fields[k:],
                        "size_hint from position %d consults %s, lower sums %s, upper sums %s; expected exactly the remaining logs %s" % (k, hints, lo_f, hi_f, fields[k:]), where_of(fhint), fn=fhint.key)
            else:
                R.fail("C17-R5", "%s|size_hint(which=%d)|paths" % (world, k), "size_hint has %d all-Some paths from position %d" % (len(full), k), where_of(fhint), fn=fhint.key)
        # constructors
        wname = {"main_world": "SpecWorld", "single_world": "EcsWorld"}[world]
        for m, log in (("iter_created", "created"), ("iter_destroyed", "destroyed")):
            f = sealed_fn(ctx, "<%s::%s as gecs::traits::World>::%s" % (sealed, wname, m))
            if f is None:
                R.anchor_missing("generated World::%s of %s" % (m, world))
                continue
            ps = ctx.paths(f, ctx.specex)
            ok = ps is not None and len(ps) == 1
            if ok:
                ret = N(ps[0].ret)
                d = dict(ret[4]) if ret[0] == "agg" else {}
                ok = d.get("which") == ("const", 0)
                for a, fld in zip(order, fields):
                    v = d.get(fld)
                    other = "destroyed" if log == "created" else "created"
                    okf = v is not None and is_call(v, "iter") and contains(v, lambda x: x[0] in ("load", "ref") and snake(a) in show(x)) and \
                        (contains(v, lambda x: x[0] in ("load", "ref") and log in show(x)) or contains(v, lambda x: x[0] == "call" and cname(x[1]).endswith("::" + log)))
                    okf = okf and not contains(v, lambda x: (x[0] in ("load", "ref") and other in show(x)) or (x[0] == "call" and cname(x[1]).endswith("::" + other)))
                    R.check(okf, "C17-R5", "%s|%s|%s" % (world, m, fld), "field %s iterates %s's %s log" % (fld, a, log), "%s.%s is %s; expected %s.data.%s().iter()" % (m, fld, show(v)[:120] if v else None, snake(a), log), where_of(f), fn=f.key)
            R.check(ok, "C17-R5", "%s|%s|start" % (world, m), "starts at position 0", "%s does not start with which = 0" % m, where_of(f), fn=f.key)
        f = sealed_fn(ctx, "<%s::%s as gecs::traits::World>::clear_events" % (sealed, wname))
        if f is None:
            R.anchor_missing("generated World::clear_events of " + world)
        else:
            ps = ctx.paths(f, ctx.specex)
            ok = ps is not None and len(ps) == 1
            if ok:
                cl = [receiver_field(e[3][0]) for e in ps[0].effects if e[0] == "call" and e[4] == 0 and cname(e[2]).endswith("clear_events")]
                ok = sorted(cl) == sorted(snake(a) for a in order)
            R.check(ok, "C17-R4", "%s|World::clear_events" % world, "clears both logs of every archetype exactly once", "World::clear_events clears %s" % (cl if ps else None), where_of(f), fn=f.key)


def receiver_field(V):
    V = N(V)
    for x in subterms(V):
        if x[0] in ("load", "ref"):
            L = x[1]
            while L is not None and isinstance(L, tuple):
                if L[0] == "field" and L[1] == ("deref", ("arg", 1)):
                    return L[2]
                L = L[1] if L[0] in ("field", "downcast", "index", "cindex") else None
    return None


def rule_delegations(ctx, R):
    """C12-R3 / C13-R4: generated Archetype::{len,capacity,is_empty,version} and Clone delegate field-wise."""
    sealed = "main_world::ecs_spec_world_sealed"
    for a in ORDER:
        for m, fld in (("len", "len"), ("capacity", "capacity"), ("version", "version")):
            f = sealed_fn(ctx, "<%s::%s as gecs::traits::Archetype>::%s" % (sealed, a, m))
            if f is None:
                R.anchor_missing("generated %s::%s" % (a, m))
                continue
            ps = ctx.paths(f, ctx.mex) if f.key in mono(ctx).fns else None
            g = mono(ctx).fns.get(f.key)
            ps = mpaths(ctx, g) if g is not None else ctx.paths(f, ctx.specex)
            ok = ps is not None and len(ps) == 1 and N(ps[0].ret) in (("load", ("field", ("field", ("deref", ("arg", 1)), "data"), fld), 0),) or (ps and is_call(N(ps[0].ret), m) and "data" in show(N(ps[0].ret)))
            R.check(bool(ok), "C12-R3", "%s::%s|delegates" % (a, m), "%s() reports data.%s" % (m, fld), "generated %s::%s returns %s" % (a, m, show(N(ps[0].ret))[:100] if ps else None), where_of(f), fn=f.key)
        f = sealed_fn(ctx, "<%s::%s as std::clone::Clone>::clone" % (sealed, a))
        if f is not None:
            ps = ctx.paths(f, ctx.specex)
            ok = ps is not None and len(ps) == 1
            if ok:
                ret = N(ps[0].ret)
                d = dict(ret[4]) if ret[0] == "agg" else {}
                v = d.get("data")
                ok = v is not None and is_call(v, "clone") and v[2][0] in (("ref", ("field", ("deref", ("arg", 1)), "data")), ("load", ("field", ("deref", ("arg", 1)), "data"), 0))
            R.check(ok, "C13-R4", "%s::clone" % a, "archetype clone = clone of its storage", "generated %s::clone returns %s" % (a, show(N(ps[0].ret))[:120] if ps else None), where_of(f), fn=f.key)
    # constructors and is_empty: thin delegations as well (a generated wrapper that second-guesses the storage --
    # e.g. skips with_capacity for some archetypes -- makes capacity()/create_within_capacity lie)
    def storage_call(v, meth, args):
        return is_call(v, meth) and "Storage" in v[1] and tuple(strip(a) for a in v[2]) == tuple(args)

    def strip(v):
        from .r_storage import strip_epochs
        return strip_epochs(v)

    for a in ORDER:
        for m, args in (("new", ()), ("with_capacity", (("arg", 1),))):
            f = sealed_fn(ctx, "<%s::%s as gecs::traits::Archetype>::%s" % (sealed, a, m))
            if f is None:
                R.anchor_missing("generated %s::%s" % (a, m))
                continue
            ps = ctx.paths(f, ctx.specex)
            ok = ps is not None and len(ps) == 1 and ps[0].end == "return"
            v = None
            if ok:
                ret = strip(N(ps[0].ret))
                v = dict(ret[4]).get("data") if ret[0] == "agg" else None
                ok = v is not None and storage_call(v, m, args)
            R.check(bool(ok), "C12-R3", "%s::%s|delegates" % (a, m), "%s(%s) = Self { data: StorageN::%s(same argument) } on its only path" % (m, "capacity" if args else "", m),
                    "generated %s::%s has %s path(s) and builds data = %s; expected exactly one path handing its own argument to the storage constructor" % (a, m, None if ps is None else len(ps), show(v)[:120] if v is not None else None), where_of(f), fn=f.key)
        f = sealed_fn(ctx, "<%s::%s as gecs::traits::Archetype>::is_empty" % (sealed, a))
        if f is not None:
            g = mono(ctx).fns.get(f.key)
            ps = mpaths(ctx, g) if g is not None else ctx.paths(f, ctx.specex)
            ok = ps is not None and len(ps) >= 1 and all(p.end == "return" for p in ps)
            if ok and len(ps) == 1:
                r = strip(N(ps[0].ret))
                lenv = ("load", ("field", ("field", ("deref", ("arg", 1)), "data"), "len"), None)
                ok = (is_call(r, "is_empty") and "data" in show(r)) or show(r) in ("Eq(*arg1.data.len, 0)", "Eq(0, *arg1.data.len)")
            R.check(bool(ok), "C12-R3", "%s::is_empty|delegates" % a, "is_empty() reports data.len == 0", "generated %s::is_empty returns %s" % (a, show(N(ps[0].ret))[:100] if ps else None), where_of(f), fn=f.key)
    for m in ("new", "with_capacity"):
        f = sealed_fn(ctx, "<%s::SpecWorld as gecs::traits::World>::%s" % (sealed, m))
        if f is None:
            R.anchor_missing("generated SpecWorld::%s" % m)
            continue
        ps = ctx.paths(f, ctx.specex)
        ok = ps is not None and len(ps) == 1 and ps[0].end == "return"
        R.check(ok, "C12-R3", "SpecWorld::%s|single-path" % m, "one path", "generated SpecWorld::%s has %s paths" % (m, None if ps is None else len(ps)), where_of(f), fn=f.key)
        if not ok:
            continue
        ret = strip(N(ps[0].ret))
        d = dict(ret[4]) if ret[0] == "agg" else {}
        R.check(sorted(d) == sorted(snake(a) for a in ORDER), "C12-R3", "SpecWorld::%s|fields" % m, "every archetype constructed", "fields %s" % sorted(d), where_of(f), fn=f.key)
        for a in ORDER:
            fld = snake(a)
            v = d.get(fld)
            want = () if m == "new" else (("field", ("arg", 1), fld),)
            want2 = () if m == "new" else (("load", ("field", ("arg", 1), fld), None),)
            wants = [] if m == "new" else ["arg1.%s" % fld]
            okf = v is not None and is_call(v, m) and [show(x) for x in v[2]] == wants
            if not okf and v is not None and v[0] == "agg" and len(v[4]) == 1 and v[4][0][0] == "data":
                inner = v[4][0][1]
                okf = is_call(inner, m) and "Storage" in inner[1] and [show(x) for x in inner[2]] == wants
            R.check(bool(okf), "C12-R3", "SpecWorld::%s|%s" % (m, fld), "world field %s <- %s::%s(%s)" % (fld, a, m, "capacity.%s" % fld if m != "new" else ""),
                    "generated SpecWorld::%s sets %s = %s" % (m, fld, show(v)[:120] if v is not None else None), where_of(f), fn=f.key)
    f = sealed_fn(ctx, "<%s::SpecWorld as std::clone::Clone>::clone" % sealed)
    if f is None:
        R.anchor_missing("generated SpecWorld::clone")
    else:
        ps = ctx.paths(f, ctx.specex)
        ok = ps is not None and len(ps) == 1
        if ok:
            ret = N(ps[0].ret)
            d = dict(ret[4]) if ret[0] == "agg" else {}
            for a in ORDER:
                fld = snake(a)
                v = d.get(fld)
                okf = v is not None and is_call(v, "clone") and v[2][0] in (("ref", ("field", ("deref", ("arg", 1)), fld)), ("load", ("field", ("deref", ("arg", 1)), fld), 0))
                if not okf and v is not None and v[0] == "agg" and len(v[4]) == 1 and v[4][0][0] == "data":
                    inner = v[4][0][1]  # the archetype's own clone (judged above) inlined
                    okf = is_call(inner, "clone") and inner[2][0] == ("ref", ("field", ("field", ("deref", ("arg", 1)), fld), "data"))
                R.check(okf, "C13-R4", "SpecWorld::clone|%s" % fld, "world field %s <- self.%s.clone()" % (fld, fld), "world clone sets %s = %s" % (fld, show(v)[:100] if v else None), where_of(f), fn=f.key)
            R.check(sorted(d) == sorted(snake(a) for a in ORDER), "C13-R4", "SpecWorld::clone|fields", "all archetypes cloned", "fields %s" % sorted(d), where_of(f), fn=f.key)


# ----------------------------------------------------------------------------------
# SP7: guard lifetimes in the runtime-borrowed expansions (C11-R3) and the computed conflict matrix (C11-R4)
# ----------------------------------------------------------------------------------
BORROW_QUERIES = {
    "iter_borrow__all": [("CompA", True)],
    "iter_borrow__typed": [("CompBox", False), ("CompAl", True)],
    "iter_borrow__break": [("CompA", False)],
    "iter_borrow__cfg": [("CompA", False)],
    "find_borrow__entity": [("CompA", True), ("CompBox", False)],
    "find_borrow__direct": [("CompA", True), ("CompBox", False)],
    "find_borrow__any": [("CompA", True)],
    "find_borrow__directany": [("CompA", True)],
    "find_borrow__typed": [("CompBox", False), ("CompAl", True)],
    # OneOf parameters: the column depends on the archetype, the mode is the one written on the parameter
    "find_borrow__oneof": {"ArchTwo": [("CompZ", False), ("CompA", True)], "ArchThree": [("CompAl", False), ("CompA", True)]},
    "iter_borrow__oneof": {"ArchTwo": [("CompZ", False), ("CompA", False)], "ArchThree": [("CompAl", False), ("CompA", False)]},
    "iter_borrow__oneof_mut": {"ArchThree": [("CompAl", True), ("CompBox", False)], "ArchDrop": [("CompD", True), ("CompBox", False)]},
}


def column_of(arch, comp):
    return "d%d" % WORLD[arch][1].index(comp)


def arch_of_loc(text):
    for a in ORDER:
        if snake(a) in text:
            return a
    return None


def rule_borrow_guards(ctx, R):
    n_units = 0
    for qname, comps in sorted(BORROW_QUERIES.items()):
        base = "main_world::" + qname
        top = inst(ctx, base)
        if top is None:
            R.anchor_missing("specimen root " + base)
            continue
        units = []
        if qname.startswith("iter_"):
            for (cf, pp, e, cps) in closure_applications(ctx, top, ctx.mex):
                if cf.key == base + "::{closure#0}":
                    units.append((cf, cps))
        else:
            for (cf, pp, e, cps) in closure_applications(ctx, top, ctx.mex):
                units.append((cf, cps))
        for (f, ps) in units:
            for p in ps or ():
                # split at loop markers: judge the last segment (one visit)
                effs = p.effects
                marks = [i for i, e in enumerate(effs) if e[0] == "loop"]
                seg = effs[marks[-1]:] if marks else effs
                ucalls = [e for e in seg if e[0] == "call" and (("::{closure#0}::{closure#" in e[2]) if qname.startswith("iter_") else (e[2].startswith(base + "::{closure#") and e[2] != f.key))]
                if not ucalls:
                    continue
                n_units += 1
                ci = seg.index(ucalls[0])
                acq = []
                for e in seg[:ci]:
                    if e[0] == "call" and (cname(e[2]).endswith("RefCell::borrow") or cname(e[2]).endswith("RefCell::borrow_mut")):
                        txt = show(N(e[3][0]))
                        m = re.search(r"\.(d\d+)\b", txt)
                        acq.append((arch_of_loc(txt), m.group(1) if m else "?", cname(e[2]).endswith("borrow_mut")))
                late = [e for e in seg[ci + 1:] if e[0] == "call" and (cname(e[2]).endswith("RefCell::borrow") or cname(e[2]).endswith("RefCell::borrow_mut"))]
                drops = [e for e in seg[ci + 1:] if e[0] == "drop" and e[2].startswith(("std::cell::Ref<", "std::cell::RefMut<"))]
                arch = acq[0][0] if acq else None
                if arch is None and f.argc >= 2:
                    mty = re.search(r"::(Arch\w+?)Borrow<", f.local_ty(2))
                    if mty:
                        arch = mty.group(1)
                        acq = [(arch, c, m) for (_, c, m) in acq]
                comps_a = comps.get(arch) if isinstance(comps, dict) else comps
                want = sorted((column_of(arch, c), m) for (c, m) in comps_a) if comps_a is not None and arch in WORLD and all(c in WORLD[arch][1] for c, _ in comps_a) else None
                got = sorted((c, m) for (_, c, m) in acq)
                key = "%s|visit@%s" % (qname, arch)
                R.check(want is not None and got == want and all(a == arch for a, _, _ in acq), "C11-R3", key + "|acquires", "one visit acquires exactly %s of %s" % (want, arch),
                        "a visit of %s acquires cells %s; expected exactly the columns of its component parameters %s (shared for &, exclusive for &mut), entity/direct parameters acquire nothing" % (qname, acq, want), where_of(f), fn=f.key)
                R.check(len(drops) == len(acq) and not late, "C11-R3", key + "|released-after-call", "every guard is dropped after the closure call, before the next visit",
                        "%d guards acquired, %d dropped after the closure call (%d acquired after it): a borrow would outlive its visit" % (len(acq), len(drops), len(late)), where_of(f), fn=f.key)
            # unwind edge of the user-closure call: every guard local is dropped on the cleanup path too
            for bi, b in enumerate(f.blocks):
                t = b["t"]
                if t["k"] == "call" and not t["f"].get("indirect") and "{closure#" in t["f"]["path"] and t["f"]["path"] != f.path and isinstance(t.get("u"), int):
                    seen, x, nd = set(), t["u"], 0
                    stack = [x]
                    while stack:
                        x = stack.pop()
                        if x in seen:
                            continue
                        seen.add(x)
                        tt = f.blocks[x]["t"]
                        if tt["k"] == "drop" and tt["ty"].startswith(("std::cell::Ref<", "std::cell::RefMut<")):
                            nd += 1
                        for k2 in ("t", "u"):
                            if isinstance(tt.get(k2), int):
                                stack.append(tt[k2])
                        if tt["k"] == "switch":
                            stack.extend([bb for _, bb in tt["ts"]] + [tt["o"]])
                    ncomp = min(len(v_) for v_ in comps.values()) if isinstance(comps, dict) else len(comps)
                    R.check(nd >= ncomp, "C11-R3", "%s|unwind@bb%d" % (qname, bi), "guards are dropped on the unwind path of the closure call (%d drops)" % nd,
                            "the unwind path of the closure call drops %d guards, %d are held: a panic in the closure would leave a column borrowed" % (nd, ncomp), where_of(f), fn=f.key)
    R.check(n_units >= 10, "C11-R3", "visits|count", "%d visit paths judged" % n_units, "only %d visit paths found" % n_units, None)
    # C11-R4: the conflict matrix is a function of which cells are acquired, in which mode, for how long
    kinds = {
        "find_borrow(&C)": ("col", False), "find_borrow(&mut C)": ("col", True), "iter_borrow(&C)": ("col", False), "iter_borrow(&mut C)": ("col", True),
        "Borrow::component": ("col", False), "Borrow::component_mut": ("col", True), "borrow_slice": ("col", False), "borrow_slice_mut": ("col", True), "clone": ("all", False),
    }
    cells = 0
    bad = []
    for ko, (so, mo) in kinds.items():
        for ki, (si, mi) in kinds.items():
            for same_col in (True, False):
                for same_arch in (True, False):
                    cells += 1
                    overlap = same_arch and (same_col or so == "all" or si == "all")
                    conflict = overlap and (mo or mi)
                    expected = same_arch and (same_col or "clone" in (ko, ki)) and (mo or mi)  # from the property statement
                    if conflict != expected:
                        bad.append((ko, ki, same_col, same_arch))
    R.check(not bad, "C11-R4", "matrix", "%d cells: RefCell rule on the acquired cells (C11-R2/R3 summaries) == matrix demanded by the property (conflict iff same archetype, same column (or clone), one side exclusive)" % cells,
            "computed matrix differs from the demanded one at %s" % bad[:3], None)


# ----------------------------------------------------------------------------------
# SP8: unchecked dynamic->typed conversions in generated code (C01-R2 / C09-R6 / C03-R8)
# ----------------------------------------------------------------------------------
def rule_unchecked_conversions(ctx, R):
    """`Entity::<A>::from_any_unchecked(k)` / `EntityDirect::<A>::from_any_unchecked(k)` skips the archetype-id test.
    In generated code it may only be reached on a path that has just established archetype_id(k) == A::ARCHETYPE_ID
    (the arm of a dispatch on that id whose value is A's id). Anywhere else a handle of another archetype would be
    handed to A's resolver, where slot index and generation can match by accident."""
    n = 0
    ids = {}
    for world, sealed in (("main_world", "main_world::ecs_spec_world_sealed"), ("single_world", "single_world::ecs_ecs_world_sealed"), ("rc_world", None), ("big_world", None)):
        pass
    for key, c in ctx.spec.consts.items():
        if key.endswith("as gecs::traits::Archetype>::ARCHETYPE_ID"):
            ids[key[1:].split(" as ")[0]] = c.get("v")
    for path, fn in sorted(ctx.spec.fns.items()):
        sites = []
        for b in fn.blocks:
            t = b["t"]
            if t["k"] == "call" and not t["f"].get("indirect") and t["f"]["path"].endswith("from_any_unchecked"):
                sites.append(t)
        if not sites:
            continue
        ps = ctx.paths(fn, ctx.specex)
        if ps is None:
            R.fail("C01-R2", "unchecked-conversion|%s|paths" % fn.short(), "path enumeration failed in a generated function that converts a dynamic key without a check (fail closed)", where_of(fn), fn=fn.key)
            continue
        for t in sites:
            targs = t["f"].get("args") or []
            arch = targs[0] if targs else None
            want = ids.get(arch)
            direct = "EntityDirect" in t["f"]["path"]
            rule = "C09-R6" if direct else "C01-R2"
            key = "unchecked-conversion|%s|%s" % (fn.short(), (arch or "?").split("::")[-1])
            hit = 0
            bad = None
            for p in ps:
                for i, e in enumerate(p.effects):
                    if e[0] == "call" and e[4] == 0 and len(e) > 8 and e[8] is t["f"]:
                        hit += 1
                        arg = N(e[3][0], keep=True)
                        guards = []
                        for c in p.conds:
                            if c[2] != "branch":
                                continue
                            v = N(c[0], keep=True)
                            on_id = (contains(v, lambda x: is_call(x, "archetype_id")) or contains(v, lambda x: x[0] == "cast" and x[1] == "IntToInt" and x[3] == "u8")) and (
                                contains(v, lambda x: x == arg) or (arg[0] in ("load", "arg") and contains(v, lambda x: x == ("arg", 1))))
                            if on_id:
                                guards.append(c[1])
                                # `if id == A::ARCHETYPE_ID` instead of a match arm
                                at = atom(c, keep=True)
                                if at[0][0] == "cmp" and at[0][1] == "Eq" and at[1] is True:
                                    for side in (at[0][2], at[0][3]):
                                        if side == ("const", want) or (side[0] == "uneval" and side[1].endswith("ARCHETYPE_ID") and side[2] and side[2][0] == arch):
                                            guards.append((want,))
                        ok = want is not None and any(g == (want,) for g in guards)
                        if not ok:
                            bad = "reached with id guards %s; expected the arm for id %s (= %s::ARCHETYPE_ID)" % (guards, want, (arch or "?").split("::")[-1])
            n += 1
            R.check(hit > 0 and bad is None, rule, key, "reached only in the arm archetype_id(key) == %s" % want,
                    "%s calls %s %s: a key of another archetype reaches the typed resolver unchecked" % (path, t["f"]["path"].split("::")[-1], bad or "on no analysed path"), where_of(fn, t["s"]), fn=fn.key)
            if bad is not None or hit == 0:
                R.fail("C03-R8", key, "%s: unchecked dynamic->typed conversion outside its id-checked arm (%s)" % (path, bad or "unreached"), where_of(fn, t["s"]), fn=fn.key)
            else:
                R.ok("C03-R8", key, "id-checked arm")
    R.check(n >= 10, "C01-R2", "unchecked-conversion|count", "%d unchecked conversions in generated code judged" % n, "only %d from_any_unchecked sites found in the specimen expansions (expected >= 10)" % n, None)
