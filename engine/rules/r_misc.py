"""C18-R3/R4 (lifetimes, unsafe impls, unsafe surface) and C19-R3 (debug checks are effect free)."""
import re

from .core import where_of, cname
from .cfg import Cfg, is_panic_path, term_succ
from .norm import strip_generics
from .r_unwind import unwind_table, writes_by_table

DERIVE_ARTEFACT_TRAITS = ("std::clone::TrivialClone",)


def rule_lifetimes(ctx, R):
    """C18-R3: every region in a return type occurs in an input type or is 'static."""
    n = 0
    for crate in (ctx.gecs, ctx.spec):
        if crate is None:
            continue
        for path, f in sorted(crate.fns.items()):
            s = f.sig()
            if not s:
                continue
            n += 1
            ub = s["unbounded_out_regions"]
            if ub:
                R.fail("C18-R3", "%s|%s" % (crate.name, f.short()), "%s returns a type with lifetime(s) %s that occur in no parameter: the result can outlive the borrow it came from (signature %s -> %s)" % (
                    path, ub, s["inputs"], s["output"]), where_of(f), fn=f.key)
            else:
                R.ok("C18-R3", "%s|%s" % (crate.name, path), None, nontrivial=("&" in s["output"] or "<'" in s["output"]), fn=f.key)
    # raw-pointer structs with a lifetime parameter must tie it to a PhantomData of reference type
    for path, adt in sorted(ctx.gecs.adts.items()):
        if adt["kind"] != "Struct":
            continue
        fields = adt["variants"][0]["fields"]
        has_raw = any(f["ty"].startswith(("*const ", "*mut ")) for f in fields)
        lts = [p for p in adt["params"] if p.startswith("'")]
        if has_raw and lts:
            ok = any(f["ty"].startswith("std::marker::PhantomData<&") and all(lt in f["ty"] for lt in lts) for f in fields)
            R.check(ok, "C18-R3", "phantom|%s" % path.split("::")[-1], "raw-pointer struct ties its lifetime to PhantomData<&'a ..>", "%s has raw pointers and lifetime %s but no PhantomData of reference type using it" % (path, lts), None)


def rule_unsafe_surface(ctx, R):
    """C18-R4: the unsafe impls of gecs are exactly Send/Sync for DataPtr<T> (bounded on T); generated code has none.
    Also: unsafe fns of gecs are not callable from client code without `unsafe` (type enforced) -- recorded as facts."""
    want = {("std::marker::Send", "T: std::marker::Send"), ("std::marker::Sync", "T: std::marker::Sync")}
    seen = set()
    for i in ctx.gecs.impls:
        if not i.get("unsafe") or i.get("trait") in DERIVE_ARTEFACT_TRAITS:
            continue
        key = "unsafe-impl|%s for %s" % (i["trait"].split("::")[-1], strip_generics(i["self"]).split("::")[-1])
        ok = i["self"] == "archetype::storage::DataPtr<T>" and any(i["trait"] == t and b in i["where"] for (t, b) in want)
        if ok:
            seen.add(i["trait"])
        R.check(ok, "C18-R4", key, "unsafe impl %s for DataPtr<T> where T: same" % i["trait"].split("::")[-1],
                "unreviewed `unsafe impl %s for %s` (where %s): only Send/Sync for DataPtr<T> bounded on T are reviewed; e.g. an unconditional Sync impl would make a world shareable between threads" % (i["trait"], i["self"], i["where"]), i["span"]["f"] + ":" + str(i["span"]["l"]))
    R.check(seen == {"std::marker::Send", "std::marker::Sync"}, "C18-R4", "unsafe-impl|set", "exactly Send and Sync for DataPtr<T>", "unsafe impls present: %s" % sorted(seen), None)
    for i in (ctx.spec.impls if ctx.spec is not None else ()):
        if i.get("unsafe") and i.get("trait") not in DERIVE_ARTEFACT_TRAITS:
            R.fail("C18-R4", "generated-unsafe-impl|%s" % i["self"].split("::")[-1], "generated/client code contains `unsafe impl %s for %s`" % (i["trait"], i["self"]), None)
    # negative impls / Sync-ness: a storage holds RefCell columns => never Sync (auto trait); recorded by witness programs
    n_unsafe_fn = 0
    pub_unsafe = []
    for path, f in sorted(ctx.gecs.fns.items()):
        s = f.sig()
        if s and s["unsafe"]:
            n_unsafe_fn += 1
    R.note("gecs declares %d unsafe fns (callable only inside unsafe blocks; client crates are forbid(unsafe_code))" % n_unsafe_fn)


ALLOWED_PURE_STD = (
    "slice::len", "slice::get_unchecked", "slice::from_raw_parts", "NonNull::as_ptr", "PartialEq::eq", "PartialEq::ne", "PartialEq>::eq", "PartialEq>::ne",
    "Into::into", "Into<U>>::into", "From::from", "TryInto<U>>::try_into", "Result::unwrap", "Option::unwrap_unchecked", "Option::is_some", "Option::is_none",
    "Layout::size", "Arguments::new", "Arguments::from_str", "Arguments::new_const", "Argument::new_display", "Argument::new_debug", "Index>::index", "Index::index",
    "mem::size_of", "RefCell::borrow", "Deref>::deref", "Deref::deref", "NonZero::get",
)


def rule_debug_checks(ctx, R):
    """C19-R3 G-DBG: every debug_assert* region is effect free: no store through a pointer, no call that writes,
    no mutable borrow handed to a callee. Judged on the MIR that contains the regions (debug-assertions on)."""
    from .r_unwind import Summaries
    summ = Summaries(ctx)
    n_regions = 0
    for path, fn in sorted(ctx.gecs.fns.items()):
        c = Cfg(fn, "keep")
        if not c.debug_switch:
            continue
        regs = c.debug_regions()
        for sw, (region, join, taken) in sorted(regs.items()):
            n_regions += 1
            bad = []
            for b in sorted(region):
                blk = fn.blocks[b]
                for s in blk["st"]:
                    if s["k"] == "assign" and "*" in s["p"]["p"]:
                        bad.append("store through a pointer at line %s" % s["s"]["l"])
                    if s["k"] == "assign" and s["rv"]["k"] in ("ref", "rawptr") and s["rv"].get("mut") and "*" in s["rv"]["p"]["p"]:
                        bad.append("mutable borrow of state at line %s" % s["s"]["l"])
                t = blk["t"]
                if t["k"] == "call":
                    f = t["f"]
                    if f.get("indirect"):
                        bad.append("indirect call")
                        continue
                    p = f["path"]
                    if is_panic_path(p) or is_panic_path(strip_generics(p)):
                        continue
                    local = ctx.gecs.lookup(f)
                    if local is not None:
                        s = summ.of(local)
                        if s["writes"]:
                            bad.append("call to %s, which writes state" % cname(p))
                        continue
                    cn = cname(p)
                    full = strip_generics(p)
                    if writes_by_table(p):
                        bad.append("call to %s (writes)" % cn)
                    elif not any(cn == a or full.endswith(a) for a in ALLOWED_PURE_STD + tuple(unwind_table()["nounwind"])):
                        if f.get("trait") and not isinstance(f.get("resolved"), dict):
                            bad.append("unresolved trait call %s" % cn)
                        else:
                            bad.append("call to %s (not in the reviewed pure set)" % cn)
                elif t["k"] == "drop" and t.get("needs_drop"):
                    bad.append("drop of %s" % t["ty"])
            key = "%s|debug-region@%d" % (fn.short(), sorted(regs).index(sw))
            R.check(not bad, "C19-R3", key, "debug check region is effect free (%d blocks)" % len(region),
                    "debug assertion in %s has an effect: %s. Builds with debug assertions on and off would diverge in state." % (path, "; ".join(sorted(set(bad))[:4])), where_of(fn, fn.blocks[sw]["t"]["s"]), fn=fn.key)
    if ctx.debug:
        R.check(n_regions >= 40, "C19-R3", "debug-regions|count", "%d debug check regions judged" % n_regions, "only %d debug regions found in a debug-assertions build (expected >= 40)" % n_regions, None)
    else:
        # in assertion-off builds the regions are dead code behind a constant false
        R.ok("C19-R3", "debug-regions|off(%d)" % n_regions, "regions are behind `const false` in this configuration", nontrivial=False)


# ----------------------------------------------------------------------------------
# C03-R2: inventory of unchecked / unsafe-callee sites versus the reviewed table
# ----------------------------------------------------------------------------------
STD_UNCHECKED = (
    "slice::get_unchecked", "slice::get_unchecked_mut", "Option::unwrap_unchecked", "Result::unwrap_unchecked", "hint::unreachable_unchecked", "hint::assert_unchecked",
    "slice::from_raw_parts", "slice::from_raw_parts_mut", "ptr::read", "ptr::write", "ptr::copy", "ptr::copy_nonoverlapping", "ptr::drop_in_place",
    "mut_ptr::add", "const_ptr::add", "mut_ptr::offset", "const_ptr::offset", "MaybeUninit::assume_init", "NonNull::new_unchecked",
    "alloc::alloc", "alloc::realloc", "alloc::dealloc", "mem::transmute", "mem::zeroed", "MaybeUninit::assume_init_ref", "MaybeUninit::assume_init_mut",
    "ptr::read_unaligned", "ptr::write_unaligned", "ptr::read_volatile", "ptr::write_volatile", "ptr::swap", "ptr::replace", "mem::transmute_copy",
    "Vec::set_len", "Vec::from_raw_parts", "String::from_utf8_unchecked", "str::from_utf8_unchecked", "Box::from_raw", "Rc::from_raw", "Arc::from_raw",
    "num::unchecked_add", "num::unchecked_sub", "num::unchecked_mul", "NonZero::new_unchecked", "Layout::from_size_align_unchecked",
    "mut_ptr::read", "const_ptr::read", "mut_ptr::write", "mut_ptr::copy_to", "const_ptr::copy_to", "mut_ptr::copy_from", "mut_ptr::copy_to_nonoverlapping", "const_ptr::copy_to_nonoverlapping",
    "mut_ptr::copy_from_nonoverlapping", "mut_ptr::drop_in_place", "mut_ptr::sub", "const_ptr::sub", "mut_ptr::replace", "mut_ptr::swap", "mut_ptr::as_mut", "mut_ptr::as_ref", "const_ptr::as_ref",
    "NonNull::as_ref", "NonNull::as_mut", "NonNull::read", "NonNull::write", "mut_ptr::write_bytes", "ptr::write_bytes",
)


def unchecked_sites(ctx):
    """{(fn path, op): count} over every fn of gecs."""
    import re
    from .norm import cname as _cn
    out = {}
    for path, fn in sorted(ctx.gecs.fns.items()):
        for b in fn.blocks:
            for s in b["st"]:
                if s["k"] == "assign" and s["rv"]["k"] == "cast" and s["rv"]["ck"] == "Transmute" and not s["rv"]["from"].startswith("*") and s["rv"]["ty"] != "usize":
                    out[(path, "transmute")] = out.get((path, "transmute"), 0) + 1
                # raw pointer dereference: a place `*p` where p is a raw pointer local
                for pl in places_of(s):
                    if pl["p"] and pl["p"][0] == "*" and fn.local_ty(pl["l"]).startswith(("*const ", "*mut ")):
                        out[(path, "raw-deref")] = out.get((path, "raw-deref"), 0) + 1
            t = b["t"]
            if t["k"] != "call" or t["f"].get("indirect"):
                continue
            f = t["f"]
            p = f["path"]
            cn = _cn(p)
            full = strip_generics(p)
            op = None
            for u in STD_UNCHECKED:
                if cn == u or full.endswith("::" + u) or full.endswith(u):
                    op = u
                    break
            if op is None:
                local = ctx.gecs.lookup(f)
                if local is not None and (local.sig() or {}).get("unsafe"):
                    op = "unsafe fn " + local.short().split("::", 1)[-1] if "DataPtr" in local.path else "unsafe fn " + local.short().split("::")[-1]
            if op is not None:
                out[(path, op)] = out.get((path, op), 0) + 1
    return out


def places_of(s):
    res = []
    if s["k"] == "assign":
        res.append(s["p"])
        def walk(x):
            if isinstance(x, dict):
                if "l" in x and "p" in x and isinstance(x["p"], list):
                    res.append(x)
                for v in x.values():
                    walk(v)
            elif isinstance(x, list):
                for v in x:
                    walk(v)
        walk(s["rv"])
    return res


def strip_type_args(p):
    """remove every `<...>` that directly follows an identifier (type/fn generic args), keep `<T as Trait>` qualifiers"""
    out = []
    i = 0
    n = len(p)
    while i < n:
        c = p[i]
        if c == "<" and out and (out[-1].isalnum() or out[-1] == "_" or (len(out) >= 2 and out[-1] == ":" and out[-2] == ":")):
            depth = 0
            j = i
            while j < n:
                if p[j] == "<":
                    depth += 1
                elif p[j] == ">" and not (j > 0 and p[j - 1] == "-"):
                    depth -= 1
                    if depth == 0:
                        break
                j += 1
            if out and out[-1] == ":" and len(out) >= 2 and out[-2] == ":":
                out = out[:-2]
            i = j + 1
            continue
        out.append(c)
        i += 1
    return "".join(out)


def fam(path):
    import re
    p = strip_type_args(path)
    p = re.sub(r"\b(Storage|Borrow|IterMut|Iter|Components|View|Slices)\d+\b", r"\1N", p)
    p = re.sub(r"_(\d+)(::|$)", r"_I\2", p)
    # a closure belongs to the function it is written in (moving code between the two is not a new owner)
    p = re.sub(r"(::\{closure#\d+\})+", "", p)
    return p


def arity_of(path):
    import re
    m = re.search(r"\b(?:Storage|Borrow|IterMut|Iter)(\d+)\b", strip_type_args(path))
    return int(m.group(1)) if m else None


OP_CLASS = {}
for _cls, _ops in {
    "ptr-arith": ("mut_ptr::add", "const_ptr::add", "mut_ptr::offset", "const_ptr::offset", "mut_ptr::sub", "const_ptr::sub", "mut_ptr::byte_add", "const_ptr::byte_add", "NonNull::add", "NonNull::offset"),
    "unchecked-index": ("slice::get_unchecked", "slice::get_unchecked_mut"),
    "raw-parts": ("slice::from_raw_parts", "slice::from_raw_parts_mut"),
    "ptr-move": ("ptr::read", "ptr::write", "ptr::copy", "ptr::copy_nonoverlapping", "ptr::swap", "ptr::replace", "ptr::read_unaligned", "ptr::write_unaligned", "ptr::read_volatile", "ptr::write_volatile",
                 "mut_ptr::read", "const_ptr::read", "mut_ptr::write", "mut_ptr::copy_to", "const_ptr::copy_to", "mut_ptr::copy_from", "mut_ptr::copy_to_nonoverlapping", "const_ptr::copy_to_nonoverlapping",
                 "mut_ptr::copy_from_nonoverlapping", "mut_ptr::replace", "mut_ptr::swap", "NonNull::read", "NonNull::write", "mut_ptr::write_bytes", "ptr::write_bytes",
                 "MaybeUninit::assume_init", "MaybeUninit::assume_init_ref", "MaybeUninit::assume_init_mut"),
    "drop-in-place": ("ptr::drop_in_place", "mut_ptr::drop_in_place"),
    "raw-deref": ("mut_ptr::as_mut", "mut_ptr::as_ref", "const_ptr::as_ref", "NonNull::as_ref", "NonNull::as_mut"),
    "alloc": ("alloc::alloc", "alloc::realloc", "alloc::dealloc", "Layout::from_size_align_unchecked"),
    "assume": ("hint::unreachable_unchecked", "hint::assert_unchecked", "Option::unwrap_unchecked", "Result::unwrap_unchecked", "NonNull::new_unchecked", "NonZero::new_unchecked",
               "num::unchecked_add", "num::unchecked_sub", "num::unchecked_mul"),
    "transmute": ("transmute", "mem::transmute", "mem::transmute_copy", "mem::zeroed"),
    "from-raw": ("Vec::set_len", "Vec::from_raw_parts", "String::from_utf8_unchecked", "str::from_utf8_unchecked", "Box::from_raw", "Rc::from_raw", "Arc::from_raw"),
}.items():
    for _o in _ops:
        OP_CLASS[_o] = _cls


def op_class(op):
    return OP_CLASS.get(op, op)


def rule_unchecked_inventory(ctx, R):
    """C03-R2 as a who-may-use rule: an unchecked operation of class c (pointer arithmetic, unchecked indexing, raw deref,
    raw-parts, pointer moves, allocator, assume-hints, transmute, call of a named local unsafe fn) may occur only in a
    function family that the reviewed table lists for that class -- where a named rule discharges it. Counts and the exact
    std API used are not compared (an `offset(1)` that becomes `add(1)`, a value read once instead of twice, are not findings);
    a private helper that is not in the table is judged as part of the table functions that (transitively) call it, so
    extracting unchecked code into a helper is not a finding either, but using it from somewhere new is."""
    import json
    from .r_unwind import TABLES
    try:
        table = json.load(open(os.path.join(TABLES, "unchecked_sites.json")))["sites"]
    except Exception as e:
        R.fail("ANCHOR", "tables/unchecked_sites.json", "reviewed table of unchecked sites missing: %s" % e, None)
        return
    allowed = {}
    for e in table:
        allowed.setdefault(fam(e["fn"]), {})[op_class(e["op"])] = e.get("discharge", "")
    owners = set(allowed)
    g = ctx.gecs
    # reverse call graph inside gecs (closures hang under their parent)
    callers = {}
    from .r_storage2 import bare_ty
    dtors = {}  # bare type name -> path of its Drop::drop in gecs
    for path in g.fns:
        if path.startswith("<") and path.endswith(" as std::ops::Drop>::drop"):
            dtors[bare_ty(path[1:].split(" as std::ops::Drop>")[0])] = path
    for path, fn in g.fns.items():
        par = fn.d.get("parent")
        if fn.kind == "Closure" and par:
            callers.setdefault(path, set()).add(par)
        for b in fn.blocks:
            t = b["t"]
            if t["k"] == "call" and not t["f"].get("indirect"):
                c = g.lookup(t["f"])
                if c is not None and c.path != path:
                    callers.setdefault(c.path, set()).add(path)
            elif t["k"] == "drop":
                # a compiler-inserted drop of a gecs-local guard type runs that type's Drop impl: a call edge like any other
                d_ = dtors.get(bare_ty(t["ty"]))
                if d_ is not None and d_ != path:
                    callers.setdefault(d_, set()).add(path)

    def owners_of(path, seen=None):
        """table families this function's unchecked code is attributed to; None = reaches no reviewed family"""
        f_ = fam(path)
        if f_ in owners:
            return {f_}
        seen = seen or set()
        if path in seen:
            return set()
        seen = seen | {path}
        cs = callers.get(path, set())
        if not cs:
            return None
        out = set()
        for c in cs:
            o = owners_of(c, seen)
            if o is None:
                return None
            out |= o
        return out

    # which reviewed owners are on a handle path: a parameter is a handle, a TrimmedIndex (decoded from one / resolver
    # payload), a generic key, or the receiver is a Borrow/View (which carry a resolved index)
    key_path = {}
    for path, fn in g.fns.items():
        o = fam(path)
        if o not in owners:
            continue
        ins = (fn.sig() or {}).get("inputs")
        if ins is None:
            par = fn.d.get("parent")
            ins = ((g.fns[par].sig() or {}).get("inputs") if par in g.fns else None)
        kp = ins is None or any(("entity::Entity" in t or "index::TrimmedIndex" in t or "SlotIndex" in t or t in ("K", "E") or "storage::Borrow" in t or "view::" in t) for t in ins)
        key_path[o] = key_path.get(o, False) or kp
    got = unchecked_sites(ctx)
    n_ok = 0
    used = set()
    for (path, op), n in sorted(got.items()):
        fn = g.fns[path]
        if op.startswith("unsafe fn "):
            # a call to a local unsafe helper that is itself not a reviewed family: its body is attributed upwards instead
            callee_fams = set()
            for b in fn.blocks:
                t = b["t"]
                if t["k"] == "call" and not t["f"].get("indirect"):
                    c = g.lookup(t["f"])
                    if c is not None and (c.sig() or {}).get("unsafe"):
                        nm = "unsafe fn " + (c.short().split("::", 1)[-1] if "DataPtr" in c.path else c.short().split("::")[-1])
                        if nm == op:
                            callee_fams.add(fam(c.path))
            if callee_fams and not (callee_fams & owners) and not any(x.split("::")[-1] in {o_.split("::")[-1] for o_ in owners} for x in callee_fams):
                continue
            # an unsafe method calling a sibling method of the same DataPtr impl passes its own contract along (the
            # sibling's body is judged where it stands); calls between StorageN methods stay listed (X-WMC also judges them)
            if callee_fams and all(x.rsplit("::", 1)[0] == fam(path).rsplit("::", 1)[0] and "DataPtr" in x for x in callee_fams):
                continue
        cls = op_class(op)
        os_ = owners_of(path)
        if os_ is None or not os_:
            R.fail("C03-R2", "UNREVIEWED-UNSAFE|%s|%s" % (fam(path), cls), "%s performs %d unchecked operation(s) `%s` (class %s) and neither it nor every function that calls it is in the reviewed table (tables/unchecked_sites.json): new unchecked code is never silently trusted" % (path, n, op, cls), where_of(fn), fn=fn.key)
            continue
        for o in sorted(os_):
            used.add((o, cls))
            ok = cls in allowed.get(o, {})
            if ok:
                n_ok += 1
            if not ok and not key_path.get(o, True):
                # a reviewed function that never sees a handle (clone, grow, drop, iter, the allocator primitives ...) gains an
                # unchecked operation of a new class: not a matter of handles being memory-safe; the rules of that function's
                # role (C02/C04/C06/C12/C13 ...) judge what it does. Recorded, not reported under C03.
                R.note("unchecked operation `%s` (class %s) is new in %s, which takes no handle or index derived from one: left to the rules of that function's role" % (op, cls, o))
                continue
            R.check(ok, "C03-R2", "%s|%s" % (o, cls) if ok else "UNREVIEWED-UNSAFE|%s|%s" % (o, cls), "reviewed: %s" % allowed.get(o, {}).get(cls, ""),
                    "%s performs `%s` (class %s)%s; the reviewed table lists for %s only %s. An unchecked operation of a new kind in this function needs review (no rule discharges it)." % (
                        path, op, cls, "" if fam(path) == o else ", attributed to its caller " + o, o, sorted(allowed.get(o, {}))), where_of(fn), fn=fn.key)
    R.check(n_ok >= 60, "C03-R2", "inventory|count", "%d (function, class) uses matched against the reviewed table" % n_ok, "only %d unchecked uses found (expected >= 60): the scan lost its anchors" % n_ok, None)
    for o, cl in sorted(allowed.items()):
        for c in sorted(cl):
            if (o, c) not in used:
                R.note("reviewed unchecked use %s|%s does not occur in this configuration" % (o, c))


import os  # noqa: E402


# ----------------------------------------------------------------------------------
# C03-R9 / C19-R7: every assumption (debug_checked_assume!: assert in debug, unreachable_unchecked in release)
# is implied by an invariant that another rule establishes
# ----------------------------------------------------------------------------------
def rule_assumes(ctx, R):
    """An `assume` is a branch one side of which inevitably reaches unreachable_unchecked(). If the assumed condition can
    be false, release builds have undefined behaviour and debug builds panic: the two profiles diverge. Each assumption
    written in gecs (judged once, in the function that contains it, not in its inlined copies) must have one of the
    forms below, with the constant on the safe side of the invariant that discharges it:
      D1  x.0 < C      x: TrimmedIndex, C >= MAX_DATA_CAPACITY     (constructors accept exactly v < MAX_DATA_CAPACITY, C03-R4)
      D2  len <= C     len/capacity of the storage, C >= 2^24       (C12-R2: capacity <= 2^24, len <= capacity)
      D3  x < x + 1    x the storage len                            (no wrap: len <= 2^24)
      D4  d <= len     d the dense index a resolver returned        (C01-R1 / C09-R1: dense < len on the accepting path)"""
    from .norm import atom, show_atom, contains
    g = ctx.gecs
    maxcap = (g.consts.get("index::MAX_DATA_CAPACITY") or {}).get("v")
    if maxcap is None:
        R.anchor_missing("const index::MAX_DATA_CAPACITY")
        return
    n = 0

    def cval(v):
        while isinstance(v, tuple) and v and v[0] == "cast":
            v = v[2]
        if isinstance(v, tuple) and v and v[0] == "const" and isinstance(v[1], int) and not isinstance(v[1], bool):
            return v[1]
        if isinstance(v, tuple) and v and v[0] == "uneval":
            c = g.consts.get(v[1]) or {}
            return c.get("v")
        return None

    def is_len(v):
        return isinstance(v, tuple) and v and v[0] == "load" and v[1][0] == "field" and v[1][2] in ("len", "capacity")

    for path, fn in sorted(g.fns.items()):
        ps = ctx.paths(fn)
        seen = set()
        for p in ps or ():
            for c in p.conds:
                if c[2] != "assume":
                    continue
                # own frame only: inlined callees' assumptions are judged in the callee
                depth = 0
                for e in p.effects[:c[4]]:
                    if e[0] == "call" and len(e) > 7 and e[7]:
                        depth += 1
                    elif e[0] == "ret":
                        depth -= 1
                if depth != 0:
                    continue
                (a, pol) = atom(c, keep=True)
                sig = (show_atom((a, pol)))
                if sig in seen:
                    continue
                seen.add(sig)
                n += 1
                ok, why = False, "no reviewed invariant has this form"
                if a[0] == "cmp" and a[1] == "Lt":
                    x, y = a[2], a[3]
                    cx, cy = cval(x), cval(y)
                    if pol and cy is not None and x[0] == "vfield" and x[2] == "0":
                        root = x[1]
                        ty = fn.local_ty(root[1]) if root[0] == "arg" else None
                        if ty is not None and ty.endswith("index::TrimmedIndex"):
                            ok, why = cy >= maxcap, "D1: x.0 < %d for x: TrimmedIndex (invariant x.0 < %d)" % (cy, maxcap)
                    elif (not pol) and cx is not None and is_len(y):
                        ok, why = cx >= maxcap, "D2: %s <= %d (invariant <= %d)" % (y[1][2], cx, maxcap)
                    elif pol and y[0] == "bin" and y[1] == "Add" and is_len(y[2]) and cval(y[3]) == 1 and (x == y[2] or _untrim(x) == y[2]):
                        ok, why = True, "D3: len < len + 1"
                    elif (not pol) and is_len(x) and contains(y, lambda t: t[0] == "call" and ("resolve_entity" in t[1] or "resolve_direct" in t[1])):
                        ok, why = True, "D4: resolved dense index <= len"
                    elif pol and is_len(y) and contains(x, lambda t: t[0] == "call" and ("resolve_entity" in t[1] or "resolve_direct" in t[1])):
                        ok, why = True, "D4: resolved dense index < len (the resolvers accept only dense < len)"
                key = "%s|%s" % (fam(path), re_fold(sig))
                for rid in ("C03-R9", "C19-R7"):
                    R.check(ok, rid, key, "assumption discharged -- " + why,
                            "%s assumes `%s` (unreachable_unchecked() in release, panic in debug when false): %s. A legal value would make release builds undefined and debug builds panic." % (path, sig[:160], why), where_of(fn, c[3]), fn=fn.key)
    for rid in ("C03-R9", "C19-R7"):
        R.check(n >= 20, rid, "assumes|count", "%d assumptions judged in their own functions" % n, "only %d assumptions found (expected >= 20)" % n, None)


def _untrim(v):
    from .r_storage import untrim, strip_epochs
    try:
        return untrim(v)
    except Exception:
        return v


def re_fold(s):
    import re
    s = re.sub(r"\bStorage\d+\b", "StorageN", s)
    s = re.sub(r"\bd\d+\b", "dN", s)
    return s[:120]
