"""C18-R3/R4 (lifetimes, unsafe impls, unsafe surface) and C19-R3 (debug checks are effect free)."""
import re

from .core import where_of, cname
from .cfg import Cfg, is_panic_path, term_succ
from .norm import strip_generics
from .r_unwind import unwind_table, writes_by_table

DERIVE_ARTEFACT_TRAITS = ("std::clone::TrivialClone",)


def rule_lifetimes(ctx, R):
    """C18-R3: every region in a return type occurs in an input type or is 'static."""
    n = 0
    for crate in (ctx.gecs, ctx.spec):
        if crate is None:
            continue
        for path, f in sorted(crate.fns.items()):
            s = f.sig()
            if not s:
                continue
            n += 1
            ub = s["unbounded_out_regions"]
            if ub:
                R.fail("C18-R3", "%s|%s" % (crate.name, f.short()), "%s returns a type with lifetime(s) %s that occur in no parameter: the result can outlive the borrow it came from (signature %s -> %s)" % (
                    path, ub, s["inputs"], s["output"]), where_of(f), fn=f.key)
            else:
                R.ok("C18-R3", "%s|%s" % (crate.name, path), None, nontrivial=("&" in s["output"] or "<'" in s["output"]), fn=f.key)
    # raw-pointer structs with a lifetime parameter must tie it to a PhantomData of reference type
    for path, adt in sorted(ctx.gecs.adts.items()):
        if adt["kind"] != "Struct":
            continue
        fields = adt["variants"][0]["fields"]
        has_raw = any(f["ty"].startswith(("*const ", "*mut ")) for f in fields)
        lts = [p for p in adt["params"] if p.startswith("'")]
        if has_raw and lts:
            ok = any(f["ty"].startswith("std::marker::PhantomData<&") and all(lt in f["ty"] for lt in lts) for f in fields)
            R.check(ok, "C18-R3", "phantom|%s" % path.split("::")[-1], "raw-pointer struct ties its lifetime to PhantomData<&'a ..>", "%s has raw pointers and lifetime %s but no PhantomData of reference type using it" % (path, lts), None)


def rule_unsafe_surface(ctx, R):
    """C18-R4: the unsafe impls of gecs are exactly Send/Sync for DataPtr<T> (bounded on T); generated code has none.
    Also: unsafe fns of gecs are not callable from client code without `unsafe` (type enforced) -- recorded as facts."""
    want = {("std::marker::Send", "T: std::marker::Send"), ("std::marker::Sync", "T: std::marker::Sync")}
    seen = set()
    for i in ctx.gecs.impls:
        if not i.get("unsafe") or i.get("trait") in DERIVE_ARTEFACT_TRAITS:
            continue
        key = "unsafe-impl|%s for %s" % (i["trait"].split("::")[-1], strip_generics(i["self"]).split("::")[-1])
        ok = i["self"] == "archetype::storage::DataPtr<T>" and any(i["trait"] == t and b in i["where"] for (t, b) in want)
        if ok:
            seen.add(i["trait"])
        R.check(ok, "C18-R4", key, "unsafe impl %s for DataPtr<T> where T: same" % i["trait"].split("::")[-1],
                "unreviewed `unsafe impl %s for %s` (where %s): only Send/Sync for DataPtr<T> bounded on T are reviewed; e.g. an unconditional Sync impl would make a world shareable between threads" % (i["trait"], i["self"], i["where"]), i["span"]["f"] + ":" + str(i["span"]["l"]))
    R.check(seen == {"std::marker::Send", "std::marker::Sync"}, "C18-R4", "unsafe-impl|set", "exactly Send and Sync for DataPtr<T>", "unsafe impls present: %s" % sorted(seen), None)
    for i in (ctx.spec.impls if ctx.spec is not None else ()):
        if i.get("unsafe") and i.get("trait") not in DERIVE_ARTEFACT_TRAITS:
            R.fail("C18-R4", "generated-unsafe-impl|%s" % i["self"].split("::")[-1], "generated/client code contains `unsafe impl %s for %s`" % (i["trait"], i["self"]), None)
    # negative impls / Sync-ness: a storage holds RefCell columns => never Sync (auto trait); recorded by witness programs
    n_unsafe_fn = 0
    pub_unsafe = []
    for path, f in sorted(ctx.gecs.fns.items()):
        s = f.sig()
        if s and s["unsafe"]:
            n_unsafe_fn += 1
    R.note("gecs declares %d unsafe fns (callable only inside unsafe blocks; client crates are forbid(unsafe_code))" % n_unsafe_fn)


ALLOWED_PURE_STD = (
    "slice::len", "slice::get_unchecked", "slice::from_raw_parts", "NonNull::as_ptr", "PartialEq::eq", "PartialEq::ne", "PartialEq>::eq", "PartialEq>::ne",
    "Into::into", "Into<U>>::into", "From::from", "TryInto<U>>::try_into", "Result::unwrap", "Option::unwrap_unchecked", "Option::is_some", "Option::is_none",
    "Layout::size", "Arguments::new", "Arguments::from_str", "Arguments::new_const", "Argument::new_display", "Argument::new_debug", "Index>::index", "Index::index",
    "mem::size_of", "RefCell::borrow", "Deref>::deref", "Deref::deref", "NonZero::get",
)


def rule_debug_checks(ctx, R):
    """C19-R3 G-DBG: every debug_assert* region is effect free: no store through a pointer, no call that writes,
    no mutable borrow handed to a callee. Judged on the MIR that contains the regions (debug-assertions on)."""
    from .r_unwind import Summaries
    summ = Summaries(ctx)
    n_regions = 0
    for path, fn in sorted(ctx.gecs.fns.items()):
        c = Cfg(fn, "keep")
        if not c.debug_switch:
            continue
        regs = c.debug_regions()
        for sw, (region, join, taken) in sorted(regs.items()):
            n_regions += 1
            bad = []
            for b in sorted(region):
                blk = fn.blocks[b]
                for s in blk["st"]:
                    if s["k"] == "assign" and "*" in s["p"]["p"]:
                        bad.append("store through a pointer at line %s" % s["s"]["l"])
                    if s["k"] == "assign" and s["rv"]["k"] in ("ref", "rawptr") and s["rv"].get("mut") and "*" in s["rv"]["p"]["p"]:
                        bad.append("mutable borrow of state at line %s" % s["s"]["l"])
                t = blk["t"]
                if t["k"] == "call":
                    f = t["f"]
                    if f.get("indirect"):
                        bad.append("indirect call")
                        continue
                    p = f["path"]
                    if is_panic_path(p) or is_panic_path(strip_generics(p)):
                        continue
                    local = ctx.gecs.lookup(f)
                    if local is not None:
                        s = summ.of(local)
                        if s["writes"]:
                            bad.append("call to %s, which writes state" % cname(p))
                        continue
                    cn = cname(p)
                    full = strip_generics(p)
                    if writes_by_table(p):
                        bad.append("call to %s (writes)" % cn)
                    elif not any(cn == a or full.endswith(a) for a in ALLOWED_PURE_STD + tuple(unwind_table()["nounwind"])):
                        if f.get("trait") and not isinstance(f.get("resolved"), dict):
                            bad.append("unresolved trait call %s" % cn)
                        else:
                            bad.append("call to %s (not in the reviewed pure set)" % cn)
                elif t["k"] == "drop" and t.get("needs_drop"):
                    bad.append("drop of %s" % t["ty"])
            key = "%s|debug-region@%d" % (fn.short(), sorted(regs).index(sw))
            R.check(not bad, "C19-R3", key, "debug check region is effect free (%d blocks)" % len(region),
                    "debug assertion in %s has an effect: %s. Builds with debug assertions on and off would diverge in state." % (path, "; ".join(sorted(set(bad))[:4])), where_of(fn, fn.blocks[sw]["t"]["s"]), fn=fn.key)
    if ctx.debug:
        R.check(n_regions >= 40, "C19-R3", "debug-regions|count", "%d debug check regions judged" % n_regions, "only %d debug regions found in a debug-assertions build (expected >= 40)" % n_regions, None)
    else:
        # in assertion-off builds the regions are dead code behind a constant false
        R.ok("C19-R3", "debug-regions|off(%d)" % n_regions, "regions are behind `const false` in this configuration", nontrivial=False)


# ----------------------------------------------------------------------------------
# C03-R2: inventory of unchecked / unsafe-callee sites versus the reviewed table
# ----------------------------------------------------------------------------------
STD_UNCHECKED = (
    "slice::get_unchecked", "slice::get_unchecked_mut", "Option::unwrap_unchecked", "Result::unwrap_unchecked", "hint::unreachable_unchecked", "hint::assert_unchecked",
    "slice::from_raw_parts", "slice::from_raw_parts_mut", "ptr::read", "ptr::write", "ptr::copy", "ptr::copy_nonoverlapping", "ptr::drop_in_place",
    "mut_ptr::add", "const_ptr::add", "mut_ptr::offset", "const_ptr::offset", "MaybeUninit::assume_init", "NonNull::new_unchecked",
    "alloc::alloc", "alloc::realloc", "alloc::dealloc", "mem::transmute", "mem::zeroed", "MaybeUninit::assume_init_ref", "MaybeUninit::assume_init_mut",
    "ptr::read_unaligned", "ptr::write_unaligned", "ptr::read_volatile", "ptr::write_volatile", "ptr::swap", "ptr::replace", "mem::transmute_copy",
    "Vec::set_len", "Vec::from_raw_parts", "String::from_utf8_unchecked", "str::from_utf8_unchecked", "Box::from_raw", "Rc::from_raw", "Arc::from_raw",
    "num::unchecked_add", "num::unchecked_sub", "num::unchecked_mul", "NonZero::new_unchecked", "Layout::from_size_align_unchecked",
)


def unchecked_sites(ctx):
    """{(fn path, op): count} over every fn of gecs."""
    import re
    from .norm import cname as _cn
    out = {}
    for path, fn in sorted(ctx.gecs.fns.items()):
        for b in fn.blocks:
            for s in b["st"]:
                if s["k"] == "assign" and s["rv"]["k"] == "cast" and s["rv"]["ck"] == "Transmute" and not s["rv"]["from"].startswith("*") and s["rv"]["ty"] != "usize":
                    out[(path, "transmute")] = out.get((path, "transmute"), 0) + 1
                # raw pointer dereference: a place `*p` where p is a raw pointer local
                for pl in places_of(s):
                    if pl["p"] and pl["p"][0] == "*" and fn.local_ty(pl["l"]).startswith(("*const ", "*mut ")):
                        out[(path, "raw-deref")] = out.get((path, "raw-deref"), 0) + 1
            t = b["t"]
            if t["k"] != "call" or t["f"].get("indirect"):
                continue
            f = t["f"]
            p = f["path"]
            cn = _cn(p)
            full = strip_generics(p)
            op = None
            for u in STD_UNCHECKED:
                if cn == u or full.endswith("::" + u) or full.endswith(u):
                    op = u
                    break
            if op is None:
                local = ctx.gecs.lookup(f)
                if local is not None and (local.sig() or {}).get("unsafe"):
                    op = "unsafe fn " + local.short().split("::", 1)[-1] if "DataPtr" in local.path else "unsafe fn " + local.short().split("::")[-1]
            if op is not None:
                out[(path, op)] = out.get((path, op), 0) + 1
    return out


def places_of(s):
    res = []
    if s["k"] == "assign":
        res.append(s["p"])
        def walk(x):
            if isinstance(x, dict):
                if "l" in x and "p" in x and isinstance(x["p"], list):
                    res.append(x)
                for v in x.values():
                    walk(v)
            elif isinstance(x, list):
                for v in x:
                    walk(v)
        walk(s["rv"])
    return res


def strip_type_args(p):
    """remove every `<...>` that directly follows an identifier (type/fn generic args), keep `<T as Trait>` qualifiers"""
    out = []
    i = 0
    n = len(p)
    while i < n:
        c = p[i]
        if c == "<" and out and (out[-1].isalnum() or out[-1] == "_" or (len(out) >= 2 and out[-1] == ":" and out[-2] == ":")):
            depth = 0
            j = i
            while j < n:
                if p[j] == "<":
                    depth += 1
                elif p[j] == ">" and not (j > 0 and p[j - 1] == "-"):
                    depth -= 1
                    if depth == 0:
                        break
                j += 1
            if out and out[-1] == ":" and len(out) >= 2 and out[-2] == ":":
                out = out[:-2]
            i = j + 1
            continue
        out.append(c)
        i += 1
    return "".join(out)


def fam(path):
    import re
    p = strip_type_args(path)
    p = re.sub(r"\b(Storage|Borrow|IterMut|Iter|Components|View|Slices)\d+\b", r"\1N", p)
    p = re.sub(r"_(\d+)(::|$)", r"_I\2", p)
    return p


def arity_of(path):
    import re
    m = re.search(r"\b(?:Storage|Borrow|IterMut|Iter)(\d+)\b", strip_type_args(path))
    return int(m.group(1)) if m else None


def rule_unchecked_inventory(ctx, R):
    import json
    from .r_unwind import TABLES
    try:
        table = json.load(open(os.path.join(TABLES, "unchecked_sites.json")))["sites"]
    except Exception as e:
        R.fail("ANCHOR", "tables/unchecked_sites.json", "reviewed table of unchecked sites missing: %s" % e, None)
        return
    want = {}
    for e in table:
        want[(e["fn"], e["op"])] = e
    got = unchecked_sites(ctx)
    mode = "debug" if ctx.debug else "release"
    seen_keys = set()
    for (path, op), n in sorted(got.items()):
        k = (fam(path), op)
        seen_keys.add(k)
        e = want.get(k)
        N_ = arity_of(path)
        fn = ctx.gecs.fns[path]
        if e is None:
            R.fail("C03-R2", "UNREVIEWED-UNSAFE|%s|%s" % k, "%s performs %d unchecked operation(s) `%s` that are not in the reviewed table (tables/unchecked_sites.json): new unchecked code is never silently trusted" % (path, n, op), where_of(fn), fn=fn.key)
            continue
        a, b = e[mode]
        if ctx.has("events"):
            a, b = a + e.get("events_extra", [0, 0])[0], b + e.get("events_extra", [0, 0])[1]
        expect = a + b * (N_ or 0)
        R.check(n == expect, "C03-R2", "%s|%s" % k, "%d reviewed site(s): %s" % (expect, e.get("discharge", "")),
                "%s has %d site(s) of `%s`, reviewed: %d (%s). An added unchecked access needs review." % (path, n, op, expect, e.get("discharge", "")), where_of(fn), fn=fn.key)
    for k, e in sorted(want.items()):
        if k not in seen_keys and (e[mode][0] or e[mode][1]):
            if k[0].startswith("archetype::storage::StorageN") or True:
                R.note("reviewed unchecked site %s|%s no longer exists (stale table entry)" % k)


import os  # noqa: E402
