"""C18-R3/R4 (lifetimes, unsafe impls, unsafe surface) and C19-R3 (debug checks are effect free)."""
import re

from .core import where_of, cname
from .cfg import Cfg, is_panic_path, term_succ
from .norm import strip_generics
from .r_unwind import unwind_table, writes_by_table

DERIVE_ARTEFACT_TRAITS = ("std::clone::TrivialClone",)


def rule_lifetimes(ctx, R):
    """C18-R3: every region in a return type occurs in an input type or is 'static."""
    n = 0
    for crate in (ctx.gecs, ctx.spec):
        if crate is None:
            continue
        for path, f in sorted(crate.fns.items()):
            s = f.sig()
            if not s:
                continue
            n += 1
            ub = s["unbounded_out_regions"]
            if ub:
                R.fail("C18-R3", "%s|%s" % (crate.name, f.short()), "%s returns a type with lifetime(s) %s that occur in no parameter: the result can outlive the borrow it came from (signature %s -> %s)" % (
                    path, ub, s["inputs"], s["output"]), where_of(f), fn=f.key)
            else:
                R.ok("C18-R3", "%s|%s" % (crate.name, path), None, nontrivial=("&" in s["output"] or "<'" in s["output"]), fn=f.key)
    # raw-pointer structs with a lifetime parameter must tie it to a PhantomData of reference type
    for path, adt in sorted(ctx.gecs.adts.items()):
        if adt["kind"] != "Struct":
            continue
        fields = adt["variants"][0]["fields"]
        has_raw = any(f["ty"].startswith(("*const ", "*mut ")) for f in fields)
        lts = [p for p in adt["params"] if p.startswith("'")]
        if has_raw and lts:
            ok = any(f["ty"].startswith("std::marker::PhantomData<&") and all(lt in f["ty"] for lt in lts) for f in fields)
            R.check(ok, "C18-R3", "phantom|%s" % path.split("::")[-1], "raw-pointer struct ties its lifetime to PhantomData<&'a ..>", "%s has raw pointers and lifetime %s but no PhantomData of reference type using it" % (path, lts), None)


def rule_unsafe_surface(ctx, R):
    """C18-R4: the unsafe impls of gecs are exactly Send/Sync for DataPtr<T> (bounded on T); generated code has none.
    Also: unsafe fns of gecs are not callable from client code without `unsafe` (type enforced) -- recorded as facts."""
    want = {("std::marker::Send", "T: std::marker::Send"), ("std::marker::Sync", "T: std::marker::Sync")}
    seen = set()
    for i in ctx.gecs.impls:
        if not i.get("unsafe") or i.get("trait") in DERIVE_ARTEFACT_TRAITS:
            continue
        key = "unsafe-impl|%s for %s" % (i["trait"].split("::")[-1], strip_generics(i["self"]).split("::")[-1])
        ok = i["self"] == "archetype::storage::DataPtr<T>" and any(i["trait"] == t and b in i["where"] for (t, b) in want)
        if ok:
            seen.add(i["trait"])
        R.check(ok, "C18-R4", key, "unsafe impl %s for DataPtr<T> where T: same" % i["trait"].split("::")[-1],
                "unreviewed `unsafe impl %s for %s` (where %s): only Send/Sync for DataPtr<T> bounded on T are reviewed; e.g. an unconditional Sync impl would make a world shareable between threads" % (i["trait"], i["self"], i["where"]), i["span"]["f"] + ":" + str(i["span"]["l"]))
    R.check(seen == {"std::marker::Send", "std::marker::Sync"}, "C18-R4", "unsafe-impl|set", "exactly Send and Sync for DataPtr<T>", "unsafe impls present: %s" % sorted(seen), None)
    for i in (ctx.spec.impls if ctx.spec is not None else ()):
        if i.get("unsafe") and i.get("trait") not in DERIVE_ARTEFACT_TRAITS:
            R.fail("C18-R4", "generated-unsafe-impl|%s" % i["self"].split("::")[-1], "generated/client code contains `unsafe impl %s for %s`" % (i["trait"], i["self"]), None)
    # negative impls / Sync-ness: a storage holds RefCell columns => never Sync (auto trait); recorded by witness programs
    n_unsafe_fn = 0
    pub_unsafe = []
    for path, f in sorted(ctx.gecs.fns.items()):
        s = f.sig()
        if s and s["unsafe"]:
            n_unsafe_fn += 1
    R.note("gecs declares %d unsafe fns (callable only inside unsafe blocks; client crates are forbid(unsafe_code))" % n_unsafe_fn)


ALLOWED_PURE_STD = (
    "slice::len", "slice::get_unchecked", "slice::from_raw_parts", "NonNull::as_ptr", "PartialEq::eq", "PartialEq::ne", "PartialEq>::eq", "PartialEq>::ne",
    "Into::into", "Into<U>>::into", "From::from", "TryInto<U>>::try_into", "Result::unwrap", "Option::unwrap_unchecked", "Option::is_some", "Option::is_none",
    "Layout::size", "Arguments::new", "Arguments::from_str", "Arguments::new_const", "Argument::new_display", "Argument::new_debug", "Index>::index", "Index::index",
    "mem::size_of", "RefCell::borrow", "Deref>::deref", "Deref::deref", "NonZero::get",
)


def rule_debug_checks(ctx, R):
    """C19-R3 G-DBG: every debug_assert* region is effect free: no store through a pointer, no call that writes,
    no mutable borrow handed to a callee. Judged on the MIR that contains the regions (debug-assertions on)."""
    from .r_unwind import Summaries
    summ = Summaries(ctx)
    n_regions = 0
    for path, fn in sorted(ctx.gecs.fns.items()):
        c = Cfg(fn, "keep")
        if not c.debug_switch:
            continue
        regs = c.debug_regions()
        for sw, (region, join, taken) in sorted(regs.items()):
            n_regions += 1
            bad = []
            for b in sorted(region):
                blk = fn.blocks[b]
                for s in blk["st"]:
                    if s["k"] == "assign" and "*" in s["p"]["p"]:
                        bad.append("store through a pointer at line %s" % s["s"]["l"])
                    if s["k"] == "assign" and s["rv"]["k"] in ("ref", "rawptr") and s["rv"].get("mut") and "*" in s["rv"]["p"]["p"]:
                        bad.append("mutable borrow of state at line %s" % s["s"]["l"])
                t = blk["t"]
                if t["k"] == "call":
                    f = t["f"]
                    if f.get("indirect"):
                        bad.append("indirect call")
                        continue
                    p = f["path"]
                    if is_panic_path(p) or is_panic_path(strip_generics(p)):
                        continue
                    local = ctx.gecs.lookup(f)
                    if local is not None:
                        s = summ.of(local)
                        if s["writes"]:
                            bad.append("call to %s, which writes state" % cname(p))
                        continue
                    cn = cname(p)
                    full = strip_generics(p)
                    if writes_by_table(p):
                        bad.append("call to %s (writes)" % cn)
                    elif not any(cn == a or full.endswith(a) for a in ALLOWED_PURE_STD + tuple(unwind_table()["nounwind"])):
                        if f.get("trait") and not isinstance(f.get("resolved"), dict):
                            bad.append("unresolved trait call %s" % cn)
                        else:
                            bad.append("call to %s (not in the reviewed pure set)" % cn)
                elif t["k"] == "drop" and t.get("needs_drop"):
                    bad.append("drop of %s" % t["ty"])
            key = "%s|debug-region@%d" % (fn.short(), sorted(regs).index(sw))
            R.check(not bad, "C19-R3", key, "debug check region is effect free (%d blocks)" % len(region),
                    "debug assertion in %s has an effect: %s. Builds with debug assertions on and off would diverge in state." % (path, "; ".join(sorted(set(bad))[:4])), where_of(fn, fn.blocks[sw]["t"]["s"]), fn=fn.key)
    if ctx.debug:
        R.check(n_regions >= 40, "C19-R3", "debug-regions|count", "%d debug check regions judged" % n_regions, "only %d debug regions found in a debug-assertions build (expected >= 40)" % n_regions, None)
    else:
        # in assertion-off builds the regions are dead code behind a constant false
        R.ok("C19-R3", "debug-regions|off(%d)" % n_regions, "regions are behind `const false` in this configuration", nontrivial=False)
