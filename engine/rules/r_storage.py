"""Rules over the generic MIR of gecs' storage (all StorageN found by role)."""
from .core import where_of, calls_named, cname
from .norm import N, NL, atom, path_atoms, show_atom, is_call, subterms, contains, canon_bool, loc_root_field
from .sym import show, show_loc

SELF = ("arg", 1)
KEY = ("arg", 2)
MAXCAP = 16777216


def sf(name, root=SELF, e=0):
    return ("load", ("field", ("deref", root), name), e)


def floc(name, root=SELF):
    return ("field", ("deref", root), name)


def untrim(V):
    """raw integer behind a TrimmedIndex construction: new_uXX(x).unwrap_unchecked()[.0] -> x"""
    if V[0] == "vfield" and V[2] == "0":
        inner = untrim_t(V[1])
        if inner is not None:
            return inner
    t = untrim_t(V)
    return t if t is not None else V


def untrim_t(V):
    if is_call(V, "Option::unwrap_unchecked", "Option::unwrap", "Option::expect") and V[2]:
        c = V[2][0]
        if is_call(c, "TrimmedIndex::new_u32", "TrimmedIndex::new_usize"):
            return c[2][0]
    return None


def raw_forms(V):
    out = {V, untrim(V)}
    if V[0] == "vfield" and V[2] == "0":
        out.add(V[1])
        out.add(untrim(V[1]))
    return out


def same_index(a, b):
    return bool(raw_forms(a) & raw_forms(b))


def key_field(name, key=KEY):
    return ("vfield", ("vfield", key, "inner"), name)


def key_index(key=KEY):
    return ("bin", "Shr", key_field("key", key), ("const", 8))


def array_of(V, S, root=SELF):
    """Which storage array (field name) a pointer/slice expression is derived from."""
    for x in subterms(V):
        if x[0] in ("load", "ref"):
            f = loc_root_field(x[1], root[1]) if root[0] == "arg" else None
            if f in (S.slots, S.entities) or f in S.columns:
                return f
    return None


def slice_parts(V):
    """from_raw_parts(_mut)(ptr, len) -> (ptr, len)"""
    if is_call(V, "slice::from_raw_parts", "slice::from_raw_parts_mut"):
        return V[2][0], V[2][1]
    return None


def is_some(V):
    return V is not None and V[0] == "agg" and V[3] == "Some"


def is_none(V):
    return V is not None and V[0] == "agg" and V[3] == "None"


def current_value(effects, upto, L):
    """Value a fresh read of heap location L would yield just before effects[upto]."""
    cur = ("load", L, 0)
    for e in effects[:upto]:
        if e[0] == "store":
            if NL(e[1]) == L:
                cur = N(e[2])
        elif e[0] == "havoc":
            P = e[1]
            if P == ("heap",):
                cur = ("load", L, e[2])
            else:
                P = NL(P)
                c = L
                hit = False
                while c is not None:
                    if c == P:
                        hit = True
                        break
                    c = c[1] if c[0] in ("field", "downcast", "index", "cindex") else None
                if hit:
                    cur = ("load", L, e[2])
    return cur


def describe_atoms(atoms):
    return " & ".join(show_atom(a) for a in atoms)


# ----------------------------------------------------------------------------------
# role discovery
# ----------------------------------------------------------------------------------
def own_calls(fn, paths, *names):
    out = []
    for p in paths or ():
        for e in p.effects:
            if e[0] == "call" and e[6] == fn.key:
                cn = cname(e[2])
                if any(cn == n or cn.endswith("::" + n) for n in names):
                    out.append((p, e))
    return out


def roles(ctx, S):
    r = {"entity_resolver": [], "direct_resolver": [], "remover": [], "creator": [], "grower": [], "cloner": [], "dropper": [], "ctor": []}
    for k, f in sorted(S.fns.items()):
        ps = ctx.paths(f)
        if ps is None:
            continue
        sig = f.sig() or {}
        inputs = sig.get("inputs", [])
        trait = f.d.get("impl_trait")
        if trait == "std::clone::Clone":
            r["cloner"].append(f)
            continue
        if trait == "std::ops::Drop":
            r["dropper"].append(f)
            continue
        if own_calls(f, ps, "slice::get_unchecked") and len(inputs) >= 2:
            if inputs[1].startswith("entity::Entity<"):
                r["entity_resolver"].append(f)
            elif inputs[1].startswith("entity::EntityDirect<"):
                r["direct_resolver"].append(f)
        if own_calls(f, ps, "DataPtr::swap_remove") or any(
            e[0] == "store" and e[5] == f.key and NL(e[1]) == floc("len") and N(e[2])[0] == "bin" and N(e[2])[1] == "Sub"
            for p in ps for e in p.effects
        ):
            r["remover"].append(f)
        if own_calls(f, ps, "DataPtr::write") or any(
            e[0] == "store" and e[5] == f.key and NL(e[1]) == floc("len") and N(e[2])[0] == "bin" and N(e[2])[1] == "Add"
            for p in ps for e in p.effects
        ):
            r["creator"].append(f)
        if own_calls(f, ps, "DataPtr::grow"):
            r["grower"].append(f)
        if not inputs or not inputs[0].startswith("&"):
            if any(p.ret is not None and N(p.ret)[0] == "agg" and N(p.ret)[2] == S.path for p in ps):
                r["ctor"].append(f)
    return r


# ----------------------------------------------------------------------------------
# C01-R1 / C09-R1 acceptance formulas
# ----------------------------------------------------------------------------------
def peel_version(v):
    """the inner NonZero `.version` field of a SlotVersion / ArchetypeVersion value -> the wrapper value
    (`a == b` on the wrapper is the derived comparison of that one field: the same test)"""
    if isinstance(v, tuple) and v:
        if v[0] == "vfield" and v[2] == "version":
            return v[1]
        if v[0] == "load" and v[1][0] == "field" and v[1][2] == "version":
            return ("load", v[1][1], v[2])
    return None


def version_pairs(x, y):
    out = [(x, y)]
    px, py = peel_version(x), peel_version(y)
    if px is not None and py is not None:
        out.append((px, py))
    return out


def rule_entity_resolver(ctx, R, rule="C01-R1"):
    for S in ctx.storages():
        rs = roles(ctx, S)["entity_resolver"]
        if len(rs) != 1:
            R.fail(rule, "%s|resolver-count" % S.name, "expected exactly one Entity key resolver (a fn reading slots with a key-derived index), found %s" % [f.short() for f in rs], None)
        for f in rs:
            judge_entity_resolver(ctx, R, S, f, rule)


def judge_entity_resolver(ctx, R, S, f, rule):
    ps = ctx.paths(f)
    key = "%s::%s" % (S.name, f.path.split("::")[-1])
    some = [p for p in ps if p.end == "return" and is_some(N(p.ret))]
    none = [p for p in ps if p.end == "return" and is_none(N(p.ret))]
    other = [p for p in ps if p not in some and p not in none]
    if other:
        R.fail(rule, key + "|exits", "resolver has %d path(s) that neither return Some nor None (e.g. end=%s): a lookup must refuse by returning None" % (len(other), other[0].end), where_of(f), fn=f.key)
    if len(some) != 1:
        R.fail(rule, key + "|some-paths", "expected exactly one accepting path, found %d (an additional accepting path bypasses the guards)" % len(some), where_of(f), fn=f.key)
        return
    p = some[0]
    atoms = path_atoms(p)
    # locate the slot: get_unchecked(slice(self.slots, self.capacity), idx)
    gus = [e for e in p.effects if e[0] == "call" and e[6] == f.key and cname(e[2]).endswith("slice::get_unchecked")]
    if not gus:
        R.fail(rule, key + "|slot-read", "no unchecked slot read on the accepting path", where_of(f), fn=f.key)
        return
    gu = gus[0]
    sl, idx = N(gu[3][0]), N(gu[3][1])
    parts = slice_parts(sl)
    ok_slice = parts is not None and array_of(parts[0], S) == S.slots and parts[1] == sf("capacity")
    R.check(ok_slice, rule, key + "|slot-slice", "slot read from slice(self.%s, self.capacity)" % S.slots,
            "slot is read from %s; expected slice(self.%s, fresh self.capacity)" % (show(sl), S.slots), where_of(f, gu[5]), fn=f.key)
    R.check(same_index(idx, key_index()), rule, key + "|slot-index", "index = key >> 8",
            "slot index is %s; expected the key's slot index (key >> ARCHETYPE_ID_BITS)" % show(idx), where_of(f, gu[5]), fn=f.key)
    slot_ptr = ("call", gu[2], (sl, idx))
    slot_version = ("load", ("field", ("deref", slot_ptr), "version"), None)
    slot_index_field = ("load", ("field", ("deref", slot_ptr), "index"), None)

    def is_slot_field(V, name):
        return V[0] == "load" and V[1][0] == "field" and V[1][2] == name and V[1][1] == ("deref", slot_ptr)

    want = {"bounds": False, "version": False, "free": False}
    extra = []
    # reference form of Slot::is_free(slot) by evaluating it on this slot
    free_fn = ctx.gecs.fns.get("archetype::slot::Slot::is_free")
    free_ref = None
    free_pol = True
    if free_fn is not None:
        fps = ctx.ex.run(free_fn, args=[slot_ptr])
        if len(fps) == 1 and fps[0].ret is not None:
            free_ref, free_pol = canon_bool(N(fps[0].ret), True)
    else:
        R.anchor_missing("archetype::slot::Slot::is_free")
    for (a, truth) in atoms:
        if a[0] == "cmp" and a[1] == "Eq" and a[3] == ("const", 0) and a[2] == sf("len"):
            if truth is False:
                continue  # len != 0 (allowed early-out)
        if a[0] == "cmp" and a[1] == "Lt" and truth and same_index(a[2], key_index()) and a[3] == sf("capacity"):
            want["bounds"] = True
            continue
        if a[0] == "cmp" and a[1] == "Eq" and truth:
            kv = key_field("version")
            hit = False
            for (x, y) in version_pairs(a[2], a[3]):
                if (is_slot_field(x, "version") and y == kv) or (is_slot_field(y, "version") and x == kv):
                    hit = True
            if hit:
                want["version"] = True
                continue
        if free_ref is not None and a == free_ref and truth is (not free_pol):
            want["free"] = True
            continue
        extra.append((a, truth))
    names = {"bounds": "Lt(slot_index(key), self.capacity)", "version": "Eq(slot.version, key.version)", "free": "!is_free(slot)"}
    for k2, v in want.items():
        R.check(v, rule, key + "|accept-requires-" + k2, "accepting path is guarded by " + names[k2],
                "accepting path lacks guard %s; path condition is: %s" % (names[k2], describe_atoms(atoms)), where_of(f), fn=f.key)
    R.check(not extra, rule, key + "|no-extra-refusal", "accepting path has no guard beyond {len!=0, bounds, version, !free}",
            "accepting path has extra guard(s) %s: a live handle could be refused for another reason" % describe_atoms(extra), where_of(f), fn=f.key)
    # guards must precede the unchecked read of the slot (bounds) and of the dense index (free)
    # -> order: position of the bounds branch must be before the get_unchecked call
    # returned payload
    ret = N(p.ret)
    pay = ret[4][0][1]
    ok_ret = pay[0] == "agg" and len(pay[4]) == 2
    if ok_ret:
        a0, a1 = pay[4][0][1], pay[4][1][1]
        ok0 = same_index(a0, key_index())
        ok1 = is_call(a1, "Option::unwrap_unchecked", "Option::unwrap", "Option::expect") and is_call(a1[2][0], "SlotIndex::index_data") and is_slot_field(a1[2][0][2][0], "index")
        R.check(ok0, rule, key + "|ret-slot", "returns the key's slot index", "first component returned is %s, expected the key's slot index" % show(a0), where_of(f), fn=f.key)
        R.check(ok1, rule, key + "|ret-dense", "returns index_data(slot.index)", "second component returned is %s, expected the dense index stored in the resolved slot" % show(a1), where_of(f), fn=f.key)
    else:
        R.fail(rule, key + "|ret-shape", "returned payload is not a (slot, dense) pair: %s" % show(ret), where_of(f), fn=f.key)
    # ordering: the bounds guard must be evaluated before the unchecked slot read on every path
    for q in ps:
        for e in q.effects:
            if e[0] == "call" and e[6] == f.key and cname(e[2]).endswith("slice::get_unchecked") and array_of(N(e[3][0]), S) == S.slots:
                i = N(e[3][1])
                pre = [atom(c) for c in q.conds if c[2] == "branch" and cond_before(q, c, e)]
                ok = any(a[0] == "cmp" and a[1] == "Lt" and t and same_index(a[2], i) and a[3] == sf("capacity") for (a, t) in pre)
                R.check(ok, "C03-R1", key + "|bounds-before-read", "unchecked slot read dominated by Lt(idx, capacity)",
                        "unchecked read of slots[%s] is not dominated by the bounds guard Lt(idx, self.capacity)" % show(i), where_of(f, e[5]), fn=f.key)
            if e[0] == "call" and e[6] == f.key and cname(e[2]).endswith("SlotIndex::index_data"):
                # whatever is done with the result (unwrap_unchecked, `?`, match): for a free slot index_data() yields
                # a link with the free bit set, not a dense index, so the call itself must be behind !is_free(slot)
                a = ("call", e[2], tuple(N(x) for x in e[3]))
                if True:
                    pre = [atom(c) for c in q.conds if c[2] == "branch" and cond_before(q, c, e)]
                    ok = free_ref is not None and any(a2 == free_ref and t is (not free_pol) for (a2, t) in pre)
                    R.check(ok, "C03-R1", key + "|free-before-dense", "dense index read dominated by !is_free(slot)",
                            "index_data().unwrap_unchecked() is not dominated by the !is_free(slot) guard", where_of(f, e[5]), fn=f.key)


def cond_before(path, cond, effect):
    """Was the branch `cond` taken before `effect` happened on this path? Uses the span-less
    ordering recorded by the executor: conds carry the number of effects seen so far."""
    idx = path.effects.index(effect)
    pos = cond_pos(path, cond)
    return pos <= idx


def cond_pos(path, cond):
    return cond[4] if len(cond) > 4 else 0


def rule_direct_resolver(ctx, R, rule="C09-R1"):
    for S in ctx.storages():
        rs = roles(ctx, S)["direct_resolver"]
        if len(rs) != 1:
            R.fail(rule, "%s|resolver-count" % S.name, "expected exactly one EntityDirect key resolver, found %s" % [f.short() for f in rs], None)
        for f in rs:
            judge_direct_resolver(ctx, R, S, f, rule)


def judge_direct_resolver(ctx, R, S, f, rule):
    ps = ctx.paths(f)
    key = "%s::%s" % (S.name, f.path.split("::")[-1])
    some = [p for p in ps if p.end == "return" and is_some(N(p.ret))]
    none = [p for p in ps if p.end == "return" and is_none(N(p.ret))]
    other = [p for p in ps if p not in some and p not in none]
    if other:
        R.fail(rule, key + "|exits", "resolver has path(s) that neither return Some nor None (end=%s)" % (other[0].end,), where_of(f), fn=f.key)
    if len(some) != 1:
        R.fail(rule, key + "|some-paths", "expected exactly one accepting path, found %d" % len(some), where_of(f), fn=f.key)
        return
    p = some[0]
    atoms = path_atoms(p)
    want = {"version": False, "bounds": False}
    extra = []
    kidx = key_index()
    for (a, truth) in atoms:
        if a[0] == "cmp" and a[1] == "Eq" and a[3] == ("const", 0) and a[2] == sf("len") and truth is False:
            continue
        if a[0] == "cmp" and a[1] == "Lt" and truth and same_index(a[2], kidx) and a[3] == sf("len"):
            want["bounds"] = True
            continue
        if a[0] == "cmp" and a[1] == "Eq" and truth and any({strip_epochs(x_), strip_epochs(y_)} == {strip_epochs(key_field("version")), strip_epochs(sf("version"))} for (x_, y_) in version_pairs(a[2], a[3])):
            want["version"] = True
            continue
        extra.append((a, truth))
    names = {"bounds": "Lt(dense_index(key), self.len)", "version": "Eq(key.version, self.version)"}
    for k2, v in want.items():
        R.check(v, rule, key + "|accept-requires-" + k2, "accepting path is guarded by " + names[k2],
                "accepting path lacks guard %s; path condition is: %s" % (names[k2], describe_atoms(atoms)), where_of(f), fn=f.key)
    R.check(not extra, rule, key + "|no-extra-refusal", "no guard beyond {len!=0, version, bounds}",
            "accepting path has extra guard(s) %s" % describe_atoms(extra), where_of(f), fn=f.key)
    ret = N(p.ret)
    pay = ret[4][0][1]
    if pay[0] == "agg" and len(pay[4]) == 2:
        a0, a1 = pay[4][0][1], pay[4][1][1]
        R.check(same_index(a1, kidx), rule, key + "|ret-dense", "returns the key's dense index",
                "dense index returned is %s, expected the key's own dense index" % show(a1), where_of(f), fn=f.key)
        # a0 = slot_index(entities[d])
        r0 = untrim(a0)
        ok0 = False
        if r0[0] == "bin" and r0[1] == "Shr" and r0[3] == ("const", 8):
            src = r0[2]
            if src[0] == "load":
                L = src[1]
                # (*get_unchecked(slice(entities,len), d)).inner.key
                if L[0] == "field" and L[2] == "key" and L[1][0] == "field" and L[1][2] == "inner" and L[1][1][0] == "deref":
                    gu = L[1][1][1]
                    if is_call(gu, "slice::get_unchecked"):
                        parts = slice_parts(gu[2][0])
                        ok0 = parts is not None and array_of(parts[0], S) == S.entities and parts[1] == sf("len") and same_index(gu[2][1], kidx)
        R.check(ok0, rule, key + "|ret-slot", "slot index read from entities[dense] within slice(entities, len)",
                "slot index returned is %s; expected slot_index(slice(self.entities, self.len)[dense_index(key)])" % show(a0), where_of(f), fn=f.key)
    else:
        R.fail(rule, key + "|ret-shape", "returned payload is not a pair: %s" % show(ret), where_of(f), fn=f.key)
    for q in ps:
        for e in q.effects:
            if e[0] == "call" and e[6] == f.key and cname(e[2]).endswith("slice::get_unchecked") and array_of(N(e[3][0]), S) == S.entities:
                i = N(e[3][1])
                pre = [atom(c) for c in q.conds if c[2] == "branch" and cond_before(q, c, e)]
                ok = any(a[0] == "cmp" and a[1] == "Lt" and t and same_index(a[2], i) and a[3] == sf("len") for (a, t) in pre)
                okv = any(a[0] == "cmp" and a[1] == "Eq" and t and {a[2], a[3]} == {key_field("version"), sf("version")} for (a, t) in pre)
                R.check(ok, "C03-R7", key + "|bounds-before-read", "unchecked entities read dominated by Lt(idx, len)",
                        "unchecked read of entities[%s] is not dominated by Lt(idx, self.len)" % show(i), where_of(f, e[5]), fn=f.key)
                R.check(okv, "C03-R7", key + "|version-before-read", "generation compared before the unchecked read",
                        "the archetype generation is not compared before the unchecked read of entities[]", where_of(f, e[5]), fn=f.key)


# ----------------------------------------------------------------------------------
# analysis units: storage methods, their closures applied in the parent's context,
# BorrowN methods
# ----------------------------------------------------------------------------------
def strip_epochs(V):
    if not isinstance(V, tuple) or not V:
        return V
    if V[0] == "load":
        return ("load", strip_epochs(V[1]), None)
    return tuple(strip_epochs(x) if isinstance(x, tuple) else x for x in V)


def closure_applications(ctx, fn, ex=None):
    """For every closure aggregate passed to a call on a path of fn, evaluate the closure
    body with its captures bound to the parent's values. Yields (closure_fn, parent_path,
    call_effect, paths)."""
    ex = ex or ctx.ex
    table = ex.table
    out = []
    seen = set()
    for p in ctx.paths(fn, ex) or ():
        for e in p.effects:
            if e[0] != "call":
                continue
            for a in e[3]:
                if a[0] == "refv":
                    a = a[1]
                if a[0] == "agg" and a[1] == "closure":
                    cf = table.fns.get(a[2])
                    if cf is None:
                        continue
                    sig = (cf.key, strip_epochs(N(a)))
                    if sig in seen:
                        continue
                    seen.add(sig)
                    by_ref = cf.local_ty(1).startswith("&")
                    args = [("carg", i) for i in range(1, cf.argc + 1)]
                    # the parent's locals stay addressable (captures by reference point into them)
                    pre = {k: v for k, v in (p.store or {}).items() if k[0] == "local" and k[1] == 0}
                    if by_ref:
                        pre[("local", -1, 0)] = a
                        args[0] = ("ref", ("local", -1, 0))
                    else:
                        args[0] = a
                    try:
                        cps = ex.run(cf, args=args, pre_store=pre, fid=1000)
                    except Exception:
                        cps = None
                    out.append((cf, p, e, cps))
    return out


def storage_units(ctx, S):
    """(label, fn, paths, root pointer value) for everything that touches S's arrays."""
    units = []
    for k, f in sorted(S.fns.items()):
        ps = ctx.paths(f)
        units.append((k, f, ps, SELF))
        for (cf, pp, e, cps) in closure_applications(ctx, f):
            units.append((k + "::{closure}", cf, cps, SELF))
    return units


def borrow_structs(ctx):
    """BorrowN structs: struct with fields (index: usize, source: &StorageN)."""
    out = []
    for path, adt in sorted(ctx.gecs.adts.items()):
        if adt["kind"] != "Struct":
            continue
        fs = {f["n"]: f["ty"] for f in adt["variants"][0]["fields"]}
        src = [n for n, t in fs.items() if t.startswith("&") and "archetype::storage::Storage" in t]
        if src and any(t == "usize" for t in fs.values()):
            out.append((path, src[0], fs))
    return out


PRIMS = ("DataPtr::slice", "DataPtr::slice_mut", "DataPtr::raw_data", "DataPtr::swap_remove", "DataPtr::drop_to",
         "DataPtr::dealloc", "DataPtr::grow", "DataPtr::with_capacity", "DataPtr::write", "DataPtr::ptr_data")


def prim_name(e):
    cn = cname(e[2])
    for p in PRIMS:
        if cn == p or cn.endswith("::" + p):
            return p.split("::")[1]
    return None


def receiver_array(V, S, root=SELF):
    V = N(V)
    f = None
    for x in subterms(V):
        if x[0] in ("load", "ref"):
            L = x[1]
            cur = L
            while cur is not None:
                if cur[0] == "field" and cur[1] == ("deref", root):
                    f = cur[2]
                    break
                cur = cur[1] if cur[0] in ("field", "downcast", "index", "cindex") else None
            if f:
                break
    return f


def rule_extent(ctx, R, rule="X-EXT"):
    """Every DataPtr primitive that takes an extent is called on a storage array with the
    extent that array is valid for: capacity for slots and for allocation-extent primitives,
    len for initialised-extent primitives of the dense arrays; fresh at the call."""
    for S in ctx.storages():
        rl = roles(ctx, S)
        growers = {f.key for f in rl["grower"]}
        ctors = {f.key for f in rl["ctor"]}
        cloners = {f.key for f in rl["cloner"]}
        role_of_key = {}
        for r_, fs_ in rl.items():
            for f_ in fs_:
                role_of_key.setdefault(f_.key, r_)
        for (label, f, ps, root) in storage_units(ctx, S):
            base = label.split("::{closure}")[0]
            parent = S.fns.get(base)
            role = role_of_key.get(parent.key if parent is not None else f.key)
            if role in ("entity_resolver", "direct_resolver"):
                role = "resolver"
            if role is None:
                if base.startswith(("get_slice", "borrow_slice", "get_all_slices")):
                    role = "slices"
                elif base.startswith("get_view"):
                    role = "view"
                else:
                    role = "other"
            rule = "X-EXT@" + role
            if ps is None:
                R.fail(rule, "%s::%s|paths" % (S.name, label), "path enumeration failed (too many paths / unsupported shape)", where_of(f), fn=f.key)
                continue
            seen = set()
            for p in ps:
                for i, e in enumerate(p.effects):
                    if e[0] != "call":
                        continue
                    prim = prim_name(e)
                    if prim is None or prim in ("write", "ptr_data"):
                        continue
                    args = [N(a) for a in e[3]]
                    if prim == "with_capacity":
                        if f.key in cloners:
                            ext = args[0]
                            cur = current_value(p.effects, i, floc("capacity", root))
                            k = "%s::%s|with_capacity#%d" % (S.name, label, len([1 for s2 in seen if "with_capacity" in s2]))
                            if (k, ext) in seen:
                                continue
                            seen.add((k, ext))
                            R.check(ext == cur, rule, "%s::%s|with_capacity" % (S.name, label), "clone allocates with self.capacity",
                                    "clone allocates an array with capacity %s; expected self.capacity" % show(ext), where_of(f, e[5]), fn=f.key)
                        continue
                    arr = receiver_array(e[3][0], S, root)
                    sig = (prim, arr, tuple(strip_epochs(a) for a in args[1:]))
                    if sig in seen:
                        continue
                    seen.add(sig)
                    key = "%s::%s|%s(%s)" % (S.name, label, prim, arr or "param")
                    if arr is None:
                        # receiver is a closure parameter handed in by Ref::map / RefMut::map: a column
                        arrclass = "dense"
                    elif arr == S.slots:
                        arrclass = "slots"
                    else:
                        arrclass = "dense"
                    if prim in ("slice", "slice_mut", "swap_remove", "drop_to", "raw_data"):
                        ext = args[2] if prim == "swap_remove" else args[1]
                        want_field = "capacity" if arrclass == "slots" else "len"
                    elif prim == "dealloc":
                        ext = args[1]
                        want_field = "capacity"
                    elif prim == "grow":
                        ext = args[1]
                        want_field = "capacity"
                    else:
                        continue
                    cur = current_value(p.effects, i, floc(want_field, root))
                    ok = ext == cur
                    why = "self.%s (fresh)" % want_field
                    if f.key in ctors and arr is None and prim == "raw_data":
                        arrclass = "slots"
                        ok = False
                    if not ok and prim == "raw_data" and arrclass == "slots":
                        # constructor: the same value the array was allocated with; grower: the new capacity
                        if f.key in ctors:
                            ok = ext == ("arg", 1) or ext == ("carg", 1)
                            why = "the capacity the slot array was just allocated with"
                            # the slots array must have been created with that very value
                            wc = [N(x[3][0]) for x in p.effects[:i] if x[0] == "call" and prim_name(x) == "with_capacity"]
                            ok = ok and bool(wc) and wc[0] == ext
                        elif f.key in growers:
                            grows = [N(x[3][2]) for x in p.effects[:i] if x[0] == "call" and prim_name(x) == "grow" and receiver_array(x[3][0], S, root) == S.slots]
                            ok = bool(grows) and grows[-1] == ext
                            why = "the new capacity the slot array was just grown to"
                    R.check(ok, rule, key, "%s extent = %s" % (prim, why),
                            "%s on %s is called with extent %s; the array is only valid for %s" % (prim, arr or "a borrowed column", show(ext), why),
                            where_of(f, e[5]), fn=f.key)
        # BorrowN accessors
    for (bpath, srcfield, fs) in borrow_structs(ctx):
        bname = bpath.split("::")[-1]
        root = ("load", ("field", ("deref", SELF), srcfield), 0)
        for p_, f in sorted(ctx.gecs.fns.items()):
            if not f.d.get("impl_self", "").startswith(bpath + "<") or f.kind != "AssocFn":
                continue
            units = [(f.path.split("::")[-1], f, ctx.paths(f))]
            for (cf, pp, e, cps) in closure_applications(ctx, f):
                units.append((f.path.split("::")[-1] + "::{closure}", cf, cps))
            for (label, uf, ps) in units:
                for p in ps or ():
                    for i, e in enumerate(p.effects):
                        if e[0] != "call":
                            continue
                        prim = prim_name(e)
                        if prim in ("slice", "slice_mut"):
                            ext = N(e[3][1])
                            want = ("load", ("field", ("deref", root), "len"), 0)
                            R.check(strip_epochs(ext) == strip_epochs(want), "X-EXT@borrow", "%s::%s|%s" % (bname, label, prim), "extent = source.len",
                                    "%s called with extent %s; expected self.source.len" % (prim, show(ext)), where_of(uf, e[5]), fn=uf.key)


# ----------------------------------------------------------------------------------
# creator: C02-R1, C08-R3, C12-R1/R4
# ----------------------------------------------------------------------------------
def single_path(ctx, R, rule, S, f, what):
    ps = ctx.paths(f)
    if ps is None or len(ps) != 1 or ps[0].end != "return":
        R.fail(rule, "%s::%s|single-path" % (S.name, f.path.split("::")[-1]),
               "%s is expected to be a single straight-line path (after removing debug checks); found %s" % (what, "none" if ps is None else [str(p.end) for p in ps]), where_of(f), fn=f.key)
        return None
    return ps[0]


def slot_ptr_of(V):
    """If V (normalised) is get_unchecked(_mut)(slice, idx) return (slice, idx)."""
    if is_call(V, "slice::get_unchecked", "slice::get_unchecked_mut"):
        return V[2][0], V[2][1]
    return None


def rule_creator(ctx, R):
    for S in ctx.storages():
        cs = roles(ctx, S)["creator"]
        cs = [f for f in cs if own_calls(f, ctx.paths(f), "DataPtr::write")]
        if len(cs) != 1:
            R.fail("C02-R1", "%s|creator-count" % S.name, "expected exactly one creator (fn writing cells with DataPtr::write), found %s" % [f.short() for f in cs], None)
        for f in cs:
            judge_creator(ctx, R, S, f)


def return_paths(ctx, R, rule, S, f, what):
    ps = ctx.paths(f)
    if ps is None:
        R.fail("SHAPE", "%s::%s|paths" % (S.name, f.path.split("::")[-1]), "%s: path enumeration failed (unsupported shape, fail closed)" % what, where_of(f), fn=f.key)
        return []
    rp = [p for p in ps if p.end == "return"]
    loops = [p for p in ps if isinstance(p.end, tuple) and p.end[0] == "backedge"]
    if loops or not rp:
        R.fail("SHAPE", "%s::%s|loop" % (S.name, f.path.split("::")[-1]), "%s contains a loop or has no returning path; the per-path rules cannot be applied (unsupported shape, fail closed)" % what, where_of(f), fn=f.key)
        return []
    return rp


def judge_creator(ctx, R, S, f):
    key0 = "%s::%s" % (S.name, f.path.split("::")[-1])
    rps = return_paths(ctx, R, "C02-R1", S, f, "the creator")
    for pi, p in enumerate(rps):
        judge_creator_path(ctx, R, S, f, p, key0 if len(rps) == 1 else "%s|path#%d" % (key0, pi))


def judge_creator_path(ctx, R, S, f, p, key):
    old_len = sf("len")
    writes = [e for e in p.effects if e[0] == "call" and prim_name(e) == "write"]
    arrays = [receiver_array(e[3][0], S) for e in writes]
    want_arrays = [S.entities] + S.columns
    R.check(sorted(arrays) == sorted(want_arrays), "C02-R1", key + "|write-set", "one write per array: %d" % len(writes),
            "creator writes arrays %s; expected exactly one write to each of %s" % (arrays, want_arrays), where_of(f), fn=f.key)
    for e, arr in zip(writes, arrays):
        idx = N(e[3][1])
        # (usize::from(TrimmedIndex::new_usize(len).unwrap*()) is len)
        R.check(idx == old_len or strip_epochs(untrim(idx)) == strip_epochs(old_len), "C02-R1", key + "|write-index(%s)" % arr, "index = len before increment",
                "cell of %s is written at index %s; expected the pre-increment self.len (all columns at one index)" % (arr, show(idx)), where_of(f, e[5]), fn=f.key)
    # len store
    lstores = [e for e in p.effects if e[0] == "store" and NL(e[1]) == floc("len")]
    okl = len(lstores) == 1 and N(lstores[0][2]) == ("bin", "Add", old_len, ("const", 1))
    R.check(okl, "C12-R1", key + "|len+1", "len <- len + 1 exactly once",
            "creator stores to len: %s; expected exactly one `len <- len + 1`" % [show(N(e[2])) for e in lstores], where_of(f), fn=f.key)
    # capacity / version untouched
    for fld in ("capacity", "version"):
        st = [e for e in p.effects if e[0] == "store" and NL(e[1]) == floc(fld)]
        R.check(not st, "C09-R3" if fld == "version" else "C12-R1", key + "|no-store(%s)" % fld, "creator does not write %s" % fld,
                "creator writes self.%s (creations must not change it)" % fld, where_of(f), fn=f.key)
    # component values: column i receives raw_get(data).i
    for e, arr in zip(writes, arrays):
        if arr in S.columns:
            i = S.columns.index(arr)
            v = N(e[3][2])
            ok = v[0] == "vfield" and v[2] == str(i) and is_call(v[1], "raw_get") and v[1][2] == (("arg", 2),)
            R.check(ok, "C02-R1", key + "|write-value(%s)" % arr, "column %d receives component %d of the argument" % (i, i),
                    "column %s receives %s; expected component %d of the data argument" % (arr, show(v), i), where_of(f, e[5]), fn=f.key)
    # minted entity
    ret = N(p.ret)
    ent_w = [N(e[3][2]) for e, arr in zip(writes, arrays) if arr == S.entities]
    R.check(bool(ent_w) and ent_w[0] == ret, "C08-R3", key + "|stored==returned", "the handle stored in entities[] is the one returned",
            "stored handle %s differs from returned handle %s" % (show(ent_w[0]) if ent_w else None, show(ret)), where_of(f), fn=f.key)
    # shape: Entity{inner: EntityAny{key: BitOr(Shl(s,8), id), version: slot.version}}
    try:
        inner = dict(ret[4])["inner"]
        keyv = dict(inner[4])["key"]
        verv = dict(inner[4])["version"]
    except Exception:
        R.fail("C08-R3", key + "|mint-shape", "returned value is not an Entity{inner: EntityAny{key, version}}: %s" % show(ret), where_of(f), fn=f.key)
        return
    free_head0 = sf("free_head")
    s_raw = None
    ok_key = keyv[0] == "bin" and keyv[1] == "BitOr" and keyv[2][0] == "bin" and keyv[2][1] == "Shl" and keyv[2][3] == ("const", 8)
    if ok_key:
        s_raw = keyv[2][2]
        idv = keyv[3]
        ok_id = idv[0] == "uneval" and idv[1].endswith("Archetype::ARCHETYPE_ID") and idv[2] and idv[2][0] == "A"
        R.check(ok_id, "C08-R3", key + "|mint-id", "archetype bits = A::ARCHETYPE_ID",
                "handle is minted with archetype id %s; expected A::ARCHETYPE_ID of the storage's own archetype" % show(idv), where_of(f), fn=f.key)
    R.check(ok_key, "C08-R3", key + "|mint-key", "key = (slot << 8) | id", "key is %s; expected (slot_index << 8) | archetype id" % show(keyv), where_of(f), fn=f.key)
    # s = index_free(old free_head)
    def is_popped(V):
        V = untrim_wrap(V)
        return is_call(V, "Option::unwrap_unchecked", "Option::unwrap", "Option::expect") and is_call(V[2][0], "SlotIndex::index_free") and N(V[2][0][2][0]) in (free_head0, ("ref", floc("free_head")))
    def untrim_wrap(V):
        if V[0] == "vfield" and V[2] == "0":
            return V[1]
        return V
    if s_raw is not None:
        R.check(is_popped(s_raw), "C08-R3", key + "|mint-slot", "slot = index_free(free_head)",
                "minted slot index is %s; expected the slot popped from the free list head" % show(s_raw), where_of(f), fn=f.key)
    # version = (*slot).version with slot = get_unchecked_mut(slice_mut(slots,capacity), s)
    okv = False
    slotp = None
    if verv[0] == "load" and verv[1][0] == "field" and verv[1][2] == "version" and verv[1][1][0] == "deref":
        slotp = verv[1][1][1]
        sp = slot_ptr_of(slotp)
        if sp is not None:
            parts = slice_parts(sp[0])
            okv = parts is not None and array_of(parts[0], S) == S.slots and s_raw is not None and same_index(sp[1], s_raw)
    R.check(okv, "C08-R3", key + "|mint-version", "generation = current generation of the popped slot",
            "minted generation is %s; expected the version field of the popped slot" % show(verv), where_of(f), fn=f.key)
    # assign on the same slot with dense = len
    asg = [e for e in p.effects if e[0] == "call" and cname(e[2]).endswith("Slot::assign")]
    ok_as = len(asg) == 1 and slotp is not None and strip_epochs(N(asg[0][3][0])) == strip_epochs(slotp) and same_index(N(asg[0][3][1]), old_len)
    R.check(ok_as, "C12-R4", key + "|assign", "popped slot assigned dense index = old len",
            "Slot::assign calls: %s; expected exactly one, on the popped slot, with the pre-increment len" % [[show(N(a)) for a in e[3]] for e in asg], where_of(f), fn=f.key)
    # free_head <- slot.index read before assign
    fh = [e for e in p.effects if e[0] == "store" and NL(e[1]) == floc("free_head")]
    ok_fh = False
    if len(fh) == 1 and slotp is not None:
        v = N(fh[0][2])
        ok_fh = v[0] == "load" and v[1][0] == "field" and v[1][2] == "index" and strip_epochs(v[1][1]) == strip_epochs(("deref", slotp))
        if ok_fh and asg:
            ok_fh = p.effects.index(fh[0]) < p.effects.index(asg[0])
    R.check(ok_fh, "C12-R4", key + "|pop", "free_head <- popped slot's link, read before assign overwrites it",
            "free_head stores: %s; expected exactly one store of the popped slot's link field taken before Slot::assign" % [show(N(e[2])) for e in fh], where_of(f), fn=f.key)
    if ctx.has("events"):
        pushes = [e for e in p.effects if e[0] == "call" and cname(e[2]).endswith("Vec::push")]
        okp = len(pushes) == 1 and receiver_array_any(pushes[0][3][0]) == "created" and N(pushes[0][3][1]) == ret
        R.check(okp, "C17-R2", key + "|created-push", "one created-event carrying the returned handle",
                "created-event pushes: %s; expected exactly one push of the returned handle onto self.created" % [[show(N(a)) for a in e[3]] for e in pushes], where_of(f), fn=f.key)
    else:
        pushes = [e for e in p.effects if e[0] == "call" and cname(e[2]).endswith("Vec::push")]
        R.check(not pushes, "C17-R2", key + "|no-events", "no event code without the events feature", "Vec::push in creator without the events feature", where_of(f), fn=f.key)


def receiver_array_any(V, root=SELF):
    V = N(V)
    for x in subterms(V):
        if x[0] in ("load", "ref"):
            cur = x[1]
            while cur is not None:
                if cur[0] == "field" and cur[1] == ("deref", root):
                    return cur[2]
                cur = cur[1] if cur[0] in ("field", "downcast", "index", "cindex") else None
    return None


# ----------------------------------------------------------------------------------
# remover: C01-R3/R4, C02-R2, C04-R2, C09-R2, C12-R1/R4, C17-R2
# ----------------------------------------------------------------------------------
def reference_eval(ctx, path, args):
    fn = ctx.gecs.fns.get(path)
    if fn is None:
        return None
    ps = ctx.ex.run(fn, args=args)
    if len(ps) != 1 or ps[0].ret is None:
        return None
    return N(ps[0].ret)


def rule_remover(ctx, R):
    for S in ctx.storages():
        rs = roles(ctx, S)["remover"]
        rs = [f for f in rs if own_calls(f, ctx.paths(f), "DataPtr::swap_remove")]
        if len(rs) != 1:
            R.fail("C02-R2", "%s|remover-count" % S.name, "expected exactly one remover (fn calling DataPtr::swap_remove), found %s" % [f.short() for f in rs], None)
        for f in rs:
            judge_remover(ctx, R, S, f)


def judge_remover(ctx, R, S, f):
    key0 = "%s::%s" % (S.name, f.path.split("::")[-1])
    rps = return_paths(ctx, R, "C04-R2", S, f, "the remover")
    for pi, p in enumerate(rps):
        judge_remover_path(ctx, R, S, f, p, key0 if len(rps) == 1 else "%s|path#%d" % (key0, pi))


def judge_remover_path(ctx, R, S, f, p, key):
    old_len = sf("len")
    slot_arg = ("vfield", ("arg", 2), "0")
    dense_arg = ("vfield", ("arg", 2), "1")
    srs = [e for e in p.effects if e[0] == "call" and prim_name(e) == "swap_remove"]
    arrays = [receiver_array(e[3][0], S) for e in srs]
    want_arrays = [S.entities] + S.columns
    R.check(sorted(arrays) == sorted(want_arrays), "C04-R2", key + "|swap_remove-set", "one swap_remove per array: %d" % len(srs),
            "remover swap_removes arrays %s; expected exactly one on each of %s" % (arrays, want_arrays), where_of(f), fn=f.key)
    for e, arr in zip(srs, arrays):
        idx = N(e[3][1])
        R.check(same_index(idx, dense_arg), "C02-R2", key + "|swap_remove-index(%s)" % arr, "index = resolved dense index",
                "swap_remove on %s uses index %s; expected the resolved dense index (all arrays at one index)" % (arr, show(idx)), where_of(f, e[5]), fn=f.key)
        ln = N(e[3][2])
        R.check(ln == old_len, "C02-R2", key + "|swap_remove-len(%s)" % arr, "len = pre-decrement self.len",
                "swap_remove on %s uses length %s; expected the pre-decrement self.len" % (arr, show(ln)), where_of(f, e[5]), fn=f.key)
    # returned value: raw_new(col0 result, col1 result, ...)
    ret = N(p.ret)
    ok_ret = is_call(ret, "raw_new") and len(ret[2]) == S.n
    if ok_ret:
        for i, a in enumerate(ret[2]):
            ok_i = array_of(a, S) == S.columns[i] and contains(a, lambda x: is_call(x, "ptr::read"))
            R.check(ok_i, "C02-R2", key + "|ret-component(%d)" % i, "returned component %d is the value moved out of column %d" % (i, i),
                    "returned component %d is %s; expected the value read out of column %s" % (i, show(a)[:200], S.columns[i]), where_of(f), fn=f.key)
    else:
        R.fail("C02-R2", key + "|ret-shape", "remover returns %s; expected raw_new(<one value per column>)" % show(ret)[:200], where_of(f), fn=f.key)
    # len store
    lstores = [e for e in p.effects if e[0] == "store" and NL(e[1]) == floc("len")]
    okl = len(lstores) == 1 and N(lstores[0][2]) == ("bin", "Sub", old_len, ("const", 1))
    R.check(okl, "C12-R1", key + "|len-1", "len <- len - 1 exactly once",
            "remover stores to len: %s; expected exactly one `len <- len - 1`" % [show(N(e[2])) for e in lstores], where_of(f), fn=f.key)
    cst = [e for e in p.effects if e[0] == "store" and NL(e[1]) == floc("capacity")]
    R.check(not cst, "C12-R1", key + "|no-store(capacity)", "remover does not write capacity", "remover writes self.capacity", where_of(f), fn=f.key)
    # archetype version bump (C09-R2)
    vst = [e for e in p.effects if e[0] == "store" and NL(e[1]) == floc("version")]
    ref_next = reference_eval(ctx, "version::ArchetypeVersion::next", [("ref", floc("version"))])
    if ref_next is None:
        R.anchor_missing("version::ArchetypeVersion::next (single path)")
    okv = len(vst) == 1 and ref_next is not None and strip_epochs(N(vst[0][2])) == strip_epochs(ref_next)
    R.check(okv, "C09-R2", key + "|arch-version-bump", "version <- next(version) unconditionally",
            "remover stores to version: %s; expected exactly one unconditional `version <- version.next()`" % [show(N(e[2]))[:160] for e in vst], where_of(f), fn=f.key)
    # last entity read before the first swap_remove, from slice(entities,len)[len-1]
    first_sr = p.effects.index(srs[0]) if srs else len(p.effects)
    asg = [e for e in p.effects if e[0] == "call" and cname(e[2]).endswith("Slot::assign")]
    rel = [e for e in p.effects if e[0] == "call" and cname(e[2]).endswith("Slot::release")]
    ok_as = False
    detail = "Slot::assign calls: %s" % [[show(N(a))[:160] for a in e[3]] for e in asg]
    if len(asg) == 1:
        sp = slot_ptr_of(N(asg[0][3][0]))
        if sp is not None:
            parts = slice_parts(sp[0])
            okslice = parts is not None and array_of(parts[0], S) == S.slots and parts[1] == sf("capacity")
            li = untrim(sp[1])
            oklast = False
            if li[0] == "bin" and li[1] == "Shr" and li[2][0] == "load":
                L = li[2][1]
                if L[0] == "field" and L[2] == "key" and L[1][0] == "field" and L[1][2] == "inner":
                    base = L[1][1]
                    # either a copy in a local (deref of get_unchecked, loaded before) or direct
                    gu = base[1] if base[0] == "deref" else None
                    if gu is not None and is_call(gu, "slice::get_unchecked"):
                        pr = slice_parts(gu[2][0])
                        oklast = pr is not None and array_of(pr[0], S) == S.entities and pr[1] == old_len and gu[2][1] == ("bin", "Sub", old_len, ("const", 1))
                        # read must precede the first swap_remove: the load's epoch is below the
                        # event id of the first swap_remove call
                        oklast = oklast and (li[2][2] or 0) < srs[0][1]
            ok_as = okslice and oklast and same_index(N(asg[0][3][1]), dense_arg)
    R.check(ok_as, "C01-R4", key + "|fixup", "slot of the last entity (read before the move) re-pointed to the vacated index",
            "expected Slot::assign(slots[slot_index(entities[len-1] read before swap_remove)], dense_index); " + detail, where_of(f), fn=f.key)
    # the resolved slot is released: its link field receives the old free-list head and its
    # generation receives next(its old generation) -- judged on the stores themselves, so it does
    # not matter whether Slot::release computes the successor or receives it from the remover
    def canon_ptr(V):
        if not isinstance(V, tuple) or not V:
            return V
        if V[0] == "call":
            path = V[1].replace("get_unchecked_mut", "get_unchecked").replace("from_raw_parts_mut", "from_raw_parts")
            return ("call", path, tuple(canon_ptr(a) for a in V[2]))
        if V[0] == "load":
            return ("load", canon_ptr(V[1]), None)
        return tuple(canon_ptr(x) if isinstance(x, tuple) else x for x in V)

    def is_resolved_slot(P):
        sp = slot_ptr_of(P)
        if sp is None:
            return False
        parts = slice_parts(sp[0])
        return parts is not None and array_of(parts[0], S) == S.slots and strip_epochs(parts[1]) == strip_epochs(sf("capacity")) and same_index(sp[1], slot_arg)

    slot_stores = {"index": [], "version": []}
    slot_ptrs = []
    for e in expand_struct_stores(p.effects, "archetype::slot::Slot"):
        if e[0] == "store":
            L = NL(e[1])
            if L[0] == "field" and L[2] in ("index", "version") and L[1][0] == "deref" and is_resolved_slot(L[1][1]):
                slot_stores[L[2]].append(e)
                slot_ptrs.append(L[1][1])
    ok_link = len(slot_stores["index"]) == 1 and N(slot_stores["index"][0][2]) == sf("free_head")
    R.check(ok_link, "C01-R3", key + "|release-link", "resolved slot's link <- old free list head (slot marked free)",
            "stores to the resolved slot's index: %s; expected exactly one, of the old free_head" % [show(N(e[2]))[:120] for e in slot_stores["index"]], where_of(f), fn=f.key)
    ok_bump = False
    if len(slot_stores["version"]) == 1 and slot_ptrs:
        e = slot_stores["version"][0]
        val = N(e[2])
        vloc = ("field", ("deref", slot_ptrs[0]), "version")
        ref_next_slot = reference_eval(ctx, "version::SlotVersion::next", [("ref", vloc)])
        if ref_next_slot is None:
            R.anchor_missing("version::SlotVersion::next (single path)")
        else:
            ok_bump = canon_ptr(val) == canon_ptr(ref_next_slot)
            # the generation read for the successor must be the slot's value before any write to it
            if ok_bump:
                for x in subterms(val):
                    pass
    R.check(ok_bump, "C01-R3", key + "|release-bump", "resolved slot's generation <- next(its old generation), unconditionally",
            "stores to the resolved slot's version: %s; expected exactly one store of SlotVersion::next(old version of that same slot)" % [show(N(e[2]))[:160] for e in slot_stores["version"]], where_of(f), fn=f.key)
    ok_rel = len(rel) == 1
    R.check(ok_rel, "C01-R3", key + "|release", "target slot released exactly once",
            "expected exactly one Slot::release call; found %d" % len(rel), where_of(f), fn=f.key)
    if asg and rel:
        R.check(p.effects.index(asg[0]) < p.effects.index(rel[0]), "C01-R4", key + "|assign-before-release", "fix-up precedes release (target == last case)",
                "Slot::release happens before Slot::assign: when the removed entity is the last one its freed slot would be marked live again", where_of(f), fn=f.key)
    fh = [e for e in p.effects if e[0] == "store" and NL(e[1]) == floc("free_head")]
    ref_free = reference_eval(ctx, "archetype::slot::SlotIndex::new_free", [slot_arg])
    ok_fh = len(fh) == 1 and ref_free is not None and strip_epochs(N(fh[0][2])) == strip_epochs(ref_free)
    R.check(ok_fh, "C12-R4", key + "|push-free", "free_head <- new_free(released slot)",
            "free_head stores: %s; expected exactly one `free_head <- SlotIndex::new_free(slot_index)`" % [show(N(e[2])) for e in fh], where_of(f), fn=f.key)
    pushes = [e for e in p.effects if e[0] == "call" and cname(e[2]).endswith("Vec::push")]
    if ctx.has("events"):
        okp = False
        if len(pushes) == 1 and receiver_array_any(pushes[0][3][0]) == "destroyed":
            v = N(pushes[0][3][1])
            if v[0] == "load" and v[1][0] == "deref" and is_call(v[1][1], "slice::get_unchecked"):
                gu = v[1][1]
                pr = slice_parts(gu[2][0])
                okp = pr is not None and array_of(pr[0], S) == S.entities and same_index(gu[2][1], dense_arg) and p.effects.index(pushes[0]) < first_sr
        R.check(okp, "C17-R2", key + "|destroyed-push", "one destroyed-event carrying entities[dense] read before the move",
                "destroyed-event pushes: %s; expected exactly one push of entities[resolved dense index], taken before swap_remove" % [[show(N(a))[:120] for a in e[3]] for e in pushes], where_of(f), fn=f.key)
    else:
        R.check(not pushes, "C17-R2", key + "|no-events", "no event code without the events feature", "Vec::push in remover without the events feature", where_of(f), fn=f.key)


def expand_struct_stores(effects, adt):
    """store effects, with a whole-value store `*p = Adt { f: v, .. }` presented as one store per field
    (`(*p).f = v`), so that rules about field stores do not depend on which of the two spellings is used"""
    for e in effects:
        if e[0] == "store":
            V = e[2]
            if isinstance(V, tuple) and V and V[0] == "agg" and len(V) > 4 and V[2] == adt:
                for (fname_, fv) in V[4]:
                    yield ("store", ("field", e[1], fname_), fv) + tuple(e[3:])
                continue
        yield e


# ----------------------------------------------------------------------------------
# Slot / version primitives: C01-R3, C08-R2
# ----------------------------------------------------------------------------------
def rule_slot_primitives(ctx, R):
    g = ctx.gecs
    rel = g.fns.get("archetype::slot::Slot::release")
    if rel is None:
        R.anchor_missing("archetype::slot::Slot::release")
        return
    ps = ctx.paths(rel)
    if ps is None or len(ps) != 1:
        R.fail("C01-R3", "Slot::release|single-path", "Slot::release must bump the generation on its single path; found %s paths" % (None if ps is None else len(ps)), where_of(rel), fn=rel.key)
        return
    p = ps[0]
    stores = {NL(e[1])[2] if NL(e[1])[0] == "field" else None: N(e[2]) for e in expand_struct_stores(p.effects, "archetype::slot::Slot") if e[0] == "store" and e[3] == 0}
    ref_next = reference_eval(ctx, "version::SlotVersion::next", [("ref", floc("version"))])
    if ref_next is None:
        R.anchor_missing("version::SlotVersion::next (single path)")
    okv = "version" in stores and ((ref_next is not None and strip_epochs(stores["version"]) == strip_epochs(ref_next)) or stores["version"] == ("arg", 3))
    R.check(okv, "C01-R3", "Slot::release|version-store", "release stores the successor generation (computed here or handed in by the remover, which C01-R3 release-bump checks)",
            "Slot::release stores %s to version; expected self.version.next() or the successor passed by the caller, unconditionally" % (show(stores.get("version")) if "version" in stores else "nothing"), where_of(rel), fn=rel.key)
    oki = stores.get("index") == ("arg", 2)
    R.check(oki, "C01-R3", "Slot::release|link", "release stores the given free-list link", "Slot::release stores %s to index; expected its argument" % show(stores.get("index")), where_of(rel), fn=rel.key)
    asg = g.fns.get("archetype::slot::Slot::assign")
    if asg is None:
        R.anchor_missing("archetype::slot::Slot::assign")
    else:
        ps = ctx.paths(asg)
        ok = ps is not None and len(ps) == 1
        if ok:
            st = [e for e in ps[0].effects if e[0] == "store" and e[3] == 0]
            ref_nd = reference_eval(ctx, "archetype::slot::SlotIndex::new_data", [("arg", 2)])
            ok = len(st) == 1 and NL(st[0][1]) == floc("index") and ref_nd is not None and N(st[0][2]) == ref_nd
        R.check(ok, "C01-R5", "Slot::assign|index-only", "assign writes only the index (generation untouched)",
                "Slot::assign must store new_data(index) to `index` and nothing else", where_of(asg), fn=asg.key)
    # who may write Slot.version: only new_free (start) and release
    for path, fn in sorted(g.fns.items()):
        if fn.kind not in ("AssocFn", "Fn"):
            continue
        for p in ctx.paths(fn) or ():
            for e in p.effects:
                if e[0] == "store" and e[5] == fn.key:
                    L = NL(e[1])
                    if L[0] == "field" and L[2] == "version":
                        # which struct? via the enclosing impl
                        if fn.d.get("impl_self") == "archetype::slot::Slot":
                            R.check(path.endswith("Slot::release"), "C08-R5", "Slot.version-writer|%s" % fn.short(), "only release writes a slot generation in place",
                                    "%s writes Slot.version in place; only Slot::release may change an existing generation" % fn.short(), where_of(fn, e[4]), fn=fn.key)
    # Slot aggregates: who constructs a Slot value
    for path, fn in sorted(g.fns.items()):
        for b in fn.blocks:
            for s in b["st"]:
                if s["k"] == "assign" and s["rv"]["k"] == "agg" and s["rv"].get("adt") == "archetype::slot::Slot":
                    # release may write its two fields as one value: what it stores is judged by C01-R3 version-store / link
                    R.check(path.endswith("Slot::new_free") or path.endswith("Slot::release"), "C08-R5", "Slot-constructor|%s" % fn.short(), "Slot values are only built by new_free (and by release, whose stored generation C01-R3 judges)",
                            "%s constructs a Slot value (can reset a generation); only Slot::new_free and Slot::release may" % fn.short(), where_of(fn, s["s"]), fn=fn.key)
    # callers of Slot::new_free: only populate_free_list
    for path, fn in sorted(g.fns.items()):
        for b in fn.blocks:
            t = b["t"]
            if t["k"] == "call" and not t["f"].get("indirect") and t["f"]["path"].endswith("Slot::new_free"):
                R.check(path.endswith("Slot::populate_free_list"), "C08-R5", "Slot::new_free-caller|%s" % fn.short(), "new_free only called while threading new slots",
                        "%s calls Slot::new_free; a fresh generation may only be given to never-used positions (populate_free_list)" % fn.short(), where_of(fn, t["s"]), fn=fn.key)


def rule_version_next(ctx, R):
    """C08-R2: shape of SlotVersion::next / ArchetypeVersion::next per configuration."""
    wrapping = ctx.has("wrapping_version")
    for ty, msg in (("SlotVersion", "slot version overflow"), ("ArchetypeVersion", "arch version overflow")):
        fn = ctx.gecs.fns.get("version::%s::next" % ty)
        if fn is None:
            R.anchor_missing("version::%s::next" % ty)
            continue
        ps = ctx.paths(fn)
        key = "%s::next" % ty
        if ps is None or len(ps) != 1 or ps[0].ret is None:
            R.fail("C08-R2", key + "|single-path", "next() must produce the successor on a single path", where_of(fn), fn=fn.key)
            continue
        ret = N(ps[0].ret)
        v = dict(ret[4]).get("version") if ret[0] == "agg" else None
        cur = ("load", ("field", ("field", ("deref", SELF), "version"), "0"), 0)
        cur_nz = ("load", ("field", ("deref", SELF), "version"), 0)
        if not wrapping:
            ok = v is not None and is_call(v, "Option::expect") and is_call(v[2][0], "checked_add") and v[2][0][2][1] == ("const", 1) and strip_epochs(v[2][0][2][0]) == strip_epochs(cur_nz)
            R.check(ok, "C08-R2", key + "|checked+1", "successor = checked_add(1), None => panic",
                    "default build: next() yields %s; expected self.version.checked_add(1).expect(..) (exactly +1, no value on overflow)" % show(v), where_of(fn), fn=fn.key)
            # the expect must be the panicking kind with the documented message
            has_msg = v is not None and len(v[2]) > 1 and v[2][1] == ("str", msg)
            R.check(has_msg, "C08-R2", key + "|panic-message", "documented overflow panic",
                    "overflow panic message is %s; documented: %r" % (show(v[2][1]) if v is not None and len(v[2]) > 1 else None, msg), where_of(fn), fn=fn.key)
        else:
            ok = False
            if v is not None and is_call(v, "Option::unwrap_or") and len(v[2]) == 2:
                a, dflt = v[2]
                if is_call(a, "NonZero::new") and is_call(a[2][0], "wrapping_add") and a[2][0][2][1] == ("const", 1):
                    inner = a[2][0][2][0]
                    ok = is_call(inner, "NonZero::get") and strip_epochs(inner[2][0]) == strip_epochs(cur_nz)
                    okd = dflt[0] in ("uneval", "const", "k") or dflt[0] == "agg"
                elif is_call(a, "checked_add") and "NonZero" in a[1] and a[2][1] == ("const", 1) and strip_epochs(a[2][0]) == strip_epochs(cur_nz):
                    # NonZero::checked_add(1) is None exactly where wrapping_add(1) would be zero: the same function
                    ok = contains(dflt, lambda x: x[0] in ("uneval", "const", "k") and "VERSION_START" in str(x)) or dflt[0] in ("uneval", "const", "k", "agg")
            R.check(ok, "C08-R2", key + "|wrapping+1", "successor = wrapping_add(1), zero mapped to the start generation",
                    "wrapping build: next() yields %s; expected NonZero::new(self.version.get().wrapping_add(1)).unwrap_or(VERSION_START)" % show(v), where_of(fn), fn=fn.key)
            # no panic entry, no unchecked op
            bad = [e for e in ps[0].effects if e[0] == "call" and (cname(e[2]).endswith("expect") or "unchecked" in cname(e[2]) or "panic" in e[2])]
            R.check(not bad, "C19-R5", key + "|wrapping-ub-free", "wrapping next() has neither a panic nor an unchecked operation",
                    "wrapping next() calls %s" % [cname(e[2]) for e in bad], where_of(fn), fn=fn.key)
    # C19-R8: the successor of a generation is computed the same way in every build profile.  A bare `+` / `-` / `*` on the way
    # panics at the boundary with -C overflow-checks (debug) and wraps silently without (release): whether the documented overflow
    # panic happens would then depend on the profile, not on the wrapping_version feature.  Arithmetic on generations has to go
    # through the explicit checked_* / wrapping_* / saturating_* methods (calls, identical in every profile).
    ARITH = ("Add", "Sub", "Mul", "AddWithOverflow", "SubWithOverflow", "MulWithOverflow", "AddUnchecked", "SubUnchecked", "MulUnchecked", "Shl", "ShlUnchecked")
    for ty in ("SlotVersion", "ArchetypeVersion"):
        fn = ctx.gecs.fns.get("version::%s::next" % ty)
        if fn is None:
            continue
        seen, st, raw = set(), [fn], []
        while st:
            h = st.pop()
            if h.key in seen:
                continue
            seen.add(h.key)
            for b in h.blocks:
                for s_ in b["st"]:
                    if s_["k"] == "assign" and s_["rv"]["k"] == "bin" and s_["rv"]["op"] in ARITH:
                        raw.append((h, s_))
                t = b["t"]
                if t["k"] == "assert" and "verflow" in str(t.get("msg")):
                    raw.append((h, t))
                if t["k"] == "call" and not t["f"].get("indirect"):
                    c = ctx.gecs.lookup(t["f"])
                    if c is not None and len(seen) < 12:
                        st.append(c)
        R.check(not raw, "C19-R8", "%s::next|profile-independent-arith" % ty, "no bare arithmetic on the way to the successor generation (%d gecs function(s) scanned)" % len(seen),
                "the successor generation is computed with a bare arithmetic operator in %s: at the boundary it panics only with -C overflow-checks (debug) and wraps silently in release, so the build profile decides whether the documented overflow panic happens" % (raw[0][0].path if raw else ""),
                where_of(raw[0][0], raw[0][1].get("s")) if raw else None, fn=fn.key)
    vs = ctx.gecs.consts.get("version::VERSION_START")
    if vs is None:
        R.anchor_missing("version::VERSION_START")
