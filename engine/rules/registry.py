"""Which rules decide which property; texts that go into the evidence / manifest."""
from . import r_storage as S
from . import r_storage2 as S2
from . import r_unwind as U
from . import r_entity as E
from . import r_spec as SP
from . import r_macros as M
from . import r_tmpl as T
from . import r_misc as X
from . import r_witness as W
from . import r_corpus as CP

COMMON_ASSUMPTIONS = [
    "rustc nightly front end, MIR construction and trait resolution are correct; the mirfacts extractor serialises MIR faithfully",
    "std semantics of RefCell, Vec, slice iterators, NonNull/raw pointer primitives and the global allocator (trusted, classified by closed tables)",
    "representation invariants I1-I4 (DESIGN.md 2.2) hold in the state an operation starts from: the rules check each operation's necessary steps, not the induction over histories",
    "generated code is uniform over archetypes/components (one template, repeated), so judgements on the specimen crate generalise to other declarations",
    "debug checks (debug_assert*, debug_checked_assume!) are treated as absent for structural rules; rule G-DBG separately requires them to be effect free",
]


def n_storages(ctx):
    return len(ctx.storages())


PROPS = {}


def prop(pid, **kw):
    PROPS[pid] = kw


prop(
    "C01",
    rules=["C01-R1", "C01-R3", "C01-R4", "C01-R5", "C08-R5", "C01-R2"],
    mir_rules=[S.rule_entity_resolver, S.rule_remover, S.rule_slot_primitives, S2.rule_grower, S2.rule_populate, S2.rule_ctor, SP.rule_funnel, SP.rule_unchecked_conversions],
    floors={
        "C01-R1": lambda c: 8 * n_storages(c),
        "C01-R3": lambda c: n_storages(c) + 2,
        "C01-R4": lambda c: 2 * n_storages(c),
    },
    explanation="Static analysis (path-wise symbolic evaluation of MIR, all StorageN found by role). Decides: C01-R1 the Entity key resolver accepts on exactly one "
    "path whose condition is {slot_index<capacity, slot.version==key.version, !is_free(slot)} (+len!=0) and nothing else, and returns (key slot, dense index stored in that slot); "
    "C01-R3 every remover releases the resolved slot and Slot::release bumps the generation unconditionally; C01-R4 the swap-remove fix-up re-points the last entity's slot, "
    "read before the move, before the release; C01-R5/C08-R5 no other code writes or resets a slot generation.",
    not_decided="that I3/I4 hold after every history (no matter how often a position is reused) is an inductive invariant; the rules are the per-operation premises of that induction",
)

prop(
    "C02",
    rules=["C02-R1", "C02-R2", "C02-R4", "X-EXT@remover", "X-EXT@creator", "X-EXT@grower", "X-EXT@view", "X-EXT@borrow", "X-EXT@other", "C02-R5", "C02-R3", "X-EXT@prim", "C02-R7", "C01-R4"],
    mir_rules=[S.rule_creator, S.rule_remover, S.rule_extent, S2.rule_grower, SP.rule_iter_loops, S2.rule_dataptr_primitives, S2.rule_alloc_discipline, S2.rule_payload_use],
    floors={"C02-R3": 6, "C02-R1": lambda c: 3 * n_storages(c), "C02-R2": lambda c: 4 * n_storages(c), "X-EXT@remover": lambda c: 3 * n_storages(c), "X-EXT@creator": lambda c: n_storages(c), "X-EXT@view": lambda c: 2 * n_storages(c)},
    explanation="Static analysis. Decides: C02-R1 the creator writes the handle and all N components at one index = pre-increment len, component i into column i; "
    "C02-R2 the remover swap_removes all N+1 arrays at the resolved dense index with the pre-decrement len and returns the values moved out of columns 0..N-1 in order; "
    "X-EXT every slice/raw view of an array is cut at the extent it is valid for (len for dense arrays, capacity for slots), fresh at the call; "
    "C02-R3 the DataPtr primitives address what they say: write(i, v) stores at cell i without reading it, swap_remove(i, len) returns cell i and copies exactly cell len-1 into it (read before copy), slice(len) = from_raw_parts(base, len), "
    "and growth carries the old cells over: realloc(self.0, array layout of old_capacity, byte size of the array layout of capacity), or alloc + copy of old_capacity cells of T (typed, or old_capacity*size_of::<T>() bytes) + dealloc with the old layout; "
    "any other memory move inside DataPtr is reported; C02-R4/R5 readers and expansions use one resolved index for every column of a visit; C02-R7 resolve_for (the index every access path uses) is built from the dense component of the resolver's (slot, dense) pair only.; C01-R4 (shared with C01) the swap-remove fix-up re-points the slot of the entity that was moved into the vacated cell on every path: without it that entity's handle reads the row of whoever is created there next",
    not_decided="that columns stay in lock-step over histories (I2/I3); value equality is never computed",
)

prop(
    "C03",
    rules=["C03-R1", "C03-R7", "X-EXT@resolver", "X-EXT@view", "X-EXT@borrow", "C03-R3", "C03-R4", "C03-R5", "C03-R2", "C03-R8", "C03-R9"],
    mir_rules=[S.rule_entity_resolver, S.rule_direct_resolver, S.rule_extent, E.rule_layout, E.rule_id_bits_inert, E.rule_version_opaque, E.rule_conversions, X.rule_unchecked_inventory, SP.rule_unchecked_conversions, X.rule_assumes],
    floors={"C03-R9": 20, "C03-R1": lambda c: 4 * n_storages(c), "C03-R7": lambda c: 2 * n_storages(c), "C03-R8": 10},
    explanation="Static analysis. Decides: C03-R1/R7 every unchecked read whose index derives from a key is dominated by the exact bounds guard against the extent of the array it indexes "
    "and by the generation / free-bit guard before slot contents are used as an index; X-EXT extents match the arrays; "
    "C03-R2 who may use unchecked operations: every unchecked operation (by class: pointer arithmetic, unchecked indexing, raw deref, raw-parts, pointer moves, drop-in-place, allocator, assume-hints, transmute, call of a named unsafe fn) occurs only in a function family that the reviewed table lists for that class, where a named rule discharges it; private helpers count as part of the reviewed functions that call them; C03-R3/R4/R5 generation numbers are only compared, widths and the 8 id bits agree and the id bits never reach an index; "
    "C03-R8 a dynamic handle becomes a typed one (TryFrom / from_any, both handle kinds) only on the path guarded by id(key) == A::ARCHETYPE_ID, so a handle of another archetype never reaches a typed resolver; "
    "C03-R9 every assumption (debug_checked_assume!: unreachable_unchecked in release) has the form of a reviewed invariant with its constant on the safe side (x.0 < C for TrimmedIndex with C >= MAX_DATA_CAPACITY, len <= C with C >= 2^24, len < len+1, resolved dense <= len).",
    not_decided="memory safety in states where I1-I4 do not hold; no sanitizer-style evidence is produced",
)

prop(
    "C08",
    rules=["C08-R2", "C08-R3", "C08-R5", "C01-R3", "C08-R4", "C14-R7", "C01-R5", "C15-R8", "C15-R9"],
    static_rules=[CP.rule_id_corpus],
    mir_rules=[S.rule_version_next, S.rule_creator, S.rule_slot_primitives, S.rule_remover, S2.rule_populate, S2.rule_ctor, S2.rule_grower, E.rule_layout, E.rule_conversions],
    floors={"C08-R2": 2, "C08-R3": lambda c: 5 * n_storages(c), "C08-R5": 3},
    explanation="Static analysis. Decides: C08-R2 the successor generation is checked_add(1) with a panic and no value on overflow (default) resp. wrapping_add(1) mapped away from zero (wrapping_version); "
    "C08-R3 a created handle carries the popped slot index, that slot's current generation and the storage's own A::ARCHETYPE_ID, and is the value stored and returned; "
    "C01-R3 every removal bumps the released slot's generation; C08-R5 generations are never reset; C01-R5 growth threads exactly the never-used tail [len, new capacity) into the free list with the start generation and assign() never touches a generation "
    "(re-threading a live or used position would hand out its first generation a second time). "
    "C15-R8/R9 (shared with C15; generated declaration corpus decided by rustc's const evaluator) the archetype ids packed into the handles are pairwise distinct: every generated declaration, with and without "
    "cfg-disabled items, gets exactly the ids of the discriminant rule and a declaration whose enabled archetypes would share an id is rejected -- two archetypes with one id issue equal handles.",
    not_decided="I4 (the free list yields each free position once) over histories; reuse after wraparound in the wrapping_version build is the documented exception",
)

prop(
    "C09",
    rules=["C09-R1", "C09-R2", "C09-R3", "C09-R4", "C09-R5", "C09-R6", "C09-R7", "C09-R8"],
    mir_rules=[S.rule_direct_resolver, S.rule_remover, S.rule_creator, S2.rule_grower, SP.rule_funnel, SP.rule_mints, E.rule_conversions, SP.rule_unchecked_conversions, S2.rule_payload_use],
    floors={"C09-R1": lambda c: 5 * n_storages(c), "C09-R2": lambda c: n_storages(c), "C09-R3": lambda c: n_storages(c), "C09-R7": 5},
    explanation="Static analysis. Decides: C09-R1 the direct resolver accepts on exactly one path guarded by {key.version==self.version, dense_index<len}; "
    "C09-R2 every remover stores version<-version.next() unconditionally; C09-R3 creators write only at index old-len and never touch version; C09-R4 every direct handle minted in an expansion carries a version read after the last removal of that visit; "
    "C09-R6 every API taking a direct key reaches storage only through the direct resolver (to_direct included); C09-R7 EntityDirectAny becomes EntityDirect<A> only on the path guarded by id(key) == A::ARCHETYPE_ID (a direct handle of another archetype never reaches A's resolver); C09-R8 to_direct mints the direct handle from the dense component of the resolver's pair and the archetype's current version, and returns a resolving direct key unchanged.",
    not_decided="the temporal statement (issued at t, used at t') over histories",
)

prop(
    "C12",
    rules=["C12-R1", "C12-R2", "C12-R3", "C12-R4", "X-WMW", "X-EXT@ctor", "X-EXT@grower", "C12-R5", "C12-R6"],
    mir_rules=[S2.rule_cloner, S.rule_creator, S.rule_remover, S2.rule_push_guards, S2.rule_grower, S2.rule_populate, S2.rule_ctor, S2.rule_accessors, S2.rule_who_may, E.rule_layout, SP.rule_delegations],
    floors={"C12-R1": lambda c: 4 * n_storages(c), "C12-R4": lambda c: 4 * n_storages(c), "C12-R2": lambda c: 18 * n_storages(c), "C12-R3": lambda c: 4 * n_storages(c), "X-WMW": lambda c: 10 * n_storages(c)},
    explanation="Static analysis. Decides: C12-R1 len changes by exactly +1 in the creator and -1 in the remover, capacity is written by neither; X-WMW len/capacity/free_head/version are written "
    "only by the functions whose role allows it and only through &mut self; C12-R2 push grows iff len>=capacity and panics iff grow()==false, push_within_capacity returns Err(argument) iff len>=capacity and never grows, "
    "the grower refuses iff capacity>=2^24, grows every array from self.capacity to min((capacity+1)*2, 2^24) and stores capacity afterwards, the constructor panics iff n>2^24 before allocating and yields capacity n, len 0; "
    "C12-R3 accessors report the fields, and the generated wrappers are thin: len/capacity/is_empty/version of every archetype of the specimen report the storage's, new/with_capacity of archetypes and of the world are single-path delegations handing their own argument(s) to the storage constructor; C12-R4 free-list pop/push/threading are locally correct list operations.",
    not_decided="that the free list holds exactly capacity-len positions after arbitrary histories (I4)",
)

prop(
    "C04",
    rules=["C04-R2", "C04-R3", "C04-R4", "C04-R5", "X-WMC", "X-EXT@dropper", "C04-R1", "C04-R7", "C04-R8", "C10-R1", "C04-R6", "C10-R8"],
    mir_rules=[S.rule_remover, S2.rule_dropper, S2.rule_push_guards, S2.rule_cloner, S2.rule_who_may, S.rule_extent, S2.rule_dataptr_primitives, S2.rule_forbidden_calls, S2.rule_alloc_discipline, U.rule_commit_sections, S2.rule_implicit_drops],
    floors={"C04-R6": lambda c: 10 * n_storages(c), "C04-R1": 15, "C04-R2": lambda c: n_storages(c), "C04-R3": lambda c: 5 * n_storages(c), "C04-R4": lambda c: 5 * n_storages(c), "C04-R5": lambda c: n_storages(c), "X-WMC": lambda c: 6 * n_storages(c)},
    explanation="Static analysis. Decides: X-WMC the ownership primitives (write, swap_remove, drop_to, dealloc, grow) are called only by the functions whose role owns them; "
    "C04-R2 the remover moves exactly one value out of each of the N+1 arrays and pairs it with one len decrement; C04-R3 Drop drops cells [0,len) of each column exactly once before freeing each array once with the tracked capacity, "
    "DataPtr has no Drop impl, and no second drop is reachable from the unwind edge of a panicking cell drop; C04-R4 a refused create_within_capacity returns its argument untouched on an effect-free path; "
    "C04-R5/C13-R2 clone clones each live cell exactly once into a fresh array; C04-R8 clone takes every column guard before its first allocation, so its documented borrow panic cannot abandon values it has already cloned; "
    "C04-R1 allocator discipline of DataPtr (GlobalAlloc contract): alloc only with the array layout of the capacity argument on a path with sized T and capacity != 0, realloc/dealloc only of self.0 with the array layout of the capacity it was allocated with on a path where that capacity != 0, "
    "the no-op paths only for zero-sized T or capacity 0, the allocator's (null-checked) result is what gets installed, nobody but DataPtr calls the allocator, swap_remove never drops; "
    "C10-R1 (shared with C10) no creator, remover or grower can be interrupted by a panic between its first and last state write: an interrupted removal leaves a duplicated row (dropped twice later), an interrupted creation a counted row that was never written; "
    "C04-R6 every compiler-inserted drop of a component-bearing place inside gecs is an unwind-path drop of a by-value local: none is reached through a pointer (which is how an assignment over a live cell shows in MIR) and none lies on a normal path (values are stored or handed back, never dropped by the library); "
    "C04-R7 no call to mem::forget, ManuallyDrop::new, *::leak, RefCell::as_ptr, UnsafeCell::get, *::into_raw or zeroed anywhere in gecs or in the specimen expansions.",
    not_decided="exactly-once over all histories additionally needs I2; leak-freedom of user Drop impls; allocator behaviour",
)

prop(
    "C06",
    rules=["C06-R1", "C06-R2", "X-EXT@slices", "C06-R3", "X-EXT@prim"],
    mir_rules=[S2.rule_iters, S.rule_extent, SP.rule_iter_loops, S2.rule_dataptr_primitives],
    floors={"C06-R1": lambda c: 6 * n_storages(c), "C06-R2": lambda c: 12 * n_storages(c)},
    explanation="Static analysis. Decides: C06-R1 both raw-pointer iterators start at the column bases with remaining = len, pointer field i over column i; C06-R2 next() yields None iff remaining==0, otherwise the "
    "pre-advance pointers in field order, advances every pointer by exactly one element once and decrements remaining once; X-EXT every slice accessor cuts at len.",
    not_decided="that cells [0,len) are exactly the live entities (I2/I3); the generated query loops are judged by the specimen rules",
)

prop(
    "C10",
    rules=["C10-R1", "C10-R2", "C10-R4", "C10-R3", "C10-R6", "C10-R7", "C10-R8"],
    mir_rules=[U.rule_commit_sections, S2.rule_grower, S2.rule_ctor, SP.rule_sealed_callbacks, U.rule_clone_unwind, S2.rule_populate, S2.rule_dropper],
    floors={"C10-R6": lambda c: n_storages(c), "C10-R1": lambda c: 7 * n_storages(c), "C10-R2": lambda c: 2 * n_storages(c), "C10-R4": lambda c: 2 * n_storages(c)},
    explanation="Static analysis (may-unwind classification of every effect on every path, closed std tables, fail closed on unclassified callees). Decides: C10-R1 no creator, remover, grower or entry point wrapping them "
    "has a may-unwind point between its first and its last state write (nor a panic path after the first write), exemptions only by keyed table entry with reason; C10-R2 the documented capacity panics precede all writes; "
    "C10-R4 RefCell borrow panics occur only in functions that do not write the representation; C10-R3 user callbacks run only in generated code outside gecs' own mutators (sealed callbacks); "
    "C10-R7 the unwrap inside populate_free_list (exempted in the grower's commit section) cannot panic because the loop threads exactly start..len-1; "
    "C10-R6 while Clone::clone runs user Clone code no value of the storage type (which has Drop) is dropped on an unwind edge, or, if one is, its len is only advanced after the row's user calls of that iteration.",
    not_decided="that every other property still holds after a panic beyond `no mutator was interrupted between two state writes`; panics inside user Drop during unwinding; callbacks in generated code are judged by the specimen rules",
)

prop(
    "C11",
    rules=["C11-R1", "C11-R2", "C11-R3", "C11-R4"],
    mir_rules=[S2.rule_cells, S2.rule_cloner, SP.rule_borrow_guards],
    floors={"C11-R1": lambda c: 20 * n_storages(c), "C11-R2": lambda c: 20 * n_storages(c)},
    explanation="Static analysis (effect summaries of RefCell acquisitions, all N). Decides: C11-R1 columns are reached only via RefCell::borrow/borrow_mut from shared receivers and get_mut from exclusive ones, no as_ptr/try_borrow_unguarded/leak/forget; "
    "C11-R2 borrow_slice_I/borrow_component_I acquire exactly (dI, shared), the _mut variants exactly (dI, exclusive), lookups/handles/counters acquire nothing, clone acquires every column shared before its first allocation.",
    not_decided="RefCell itself (trusted std); guard lifetimes in generated code are judged by the specimen rules",
)

prop(
    "C13",
    rules=["C13-R1", "C13-R2", "C13-R3", "X-EXT@cloner", "C13-R4"],
    mir_rules=[S2.rule_cloner, S.rule_extent, SP.rule_delegations],
    floors={"C13-R1": lambda c: 4 * n_storages(c), "C13-R2": lambda c: 4 * n_storages(c), "C13-R3": lambda c: 4 * n_storages(c)},
    explanation="Static analysis. Decides: C13-R1 the clone's len/version/capacity/free_head (and pending event logs) have the source's values as origin; C13-R2 all capacity slots and the live prefix of every dense array are cloned element-wise at equal index "
    "into the array that becomes the same field; C13-R3 every array is a fresh allocation of self.capacity, no pointer of the source flows into the result, DataPtr is neither Copy nor Clone, the source is not written.",
    not_decided="that the clone answers every query like the original (behavioural); diverging futures",
)

prop(
    "C17",
    rules=["C17-R1", "C17-R2", "C17-R4", "C17-R3", "C17-R5"],
    mir_rules=[S.rule_creator, S.rule_remover, S2.rule_who_may, SP.rule_funnel, SP.rule_event_iter],
    floors={"C17-R2": lambda c: 2 * n_storages(c), "C17-R1": lambda c: 3 * n_storages(c)},
    explanation="Static analysis (events configurations; in the others the rules assert that no event code exists). Decides: C17-R1 the logs are pushed only by creator/remover and cleared only by clear_events; "
    "C17-R2 exactly one created-event per creation carrying the returned handle, exactly one destroyed-event per removal carrying entities[dense] read before the move; C17-R4 clear_events clears both logs and nothing else, accessors expose their own log.",
    not_decided="history-level exactness follows from the bijection with len changes; world-level iterators are judged by the specimen rules",
)

prop(
    "C05",
    rules=["C05-R1", "C05-R2", "C05-R3", "C05-R4", "C05-R5", "C05-R7", "C05-R6", "C05-R8", "C05-R9", "C05-R10"],
    static_rules=[T.rule_sibling_helpers, CP.rule_query_corpus],
    static_floors={'C05-R6': 1, 'C05-R8': 150},
    mir_rules=[M.rule_bind_query_params, M.rule_contains_component, M.rule_bind_one_of, M.rule_generators, SP.rule_find_dispatch, SP.rule_iter_loops],
    floors={"C05-R1": 40, "C05-R2": 9, "C05-R3": 7, "C05-R4": 9, "C05-R5": 60, "C05-R7": 30},
    explanation="Static analysis, universal part on the macro crate's own MIR: C05-R1 in bind_query_params a parameter binds to an archetype iff (Component) !cfg_enabled or contains_component(archetype, name), (Entity/EntityDirect<A>) !cfg_enabled or archetype.name == A, "
    "(wildcard/dynamic kinds) always, (OneOf) bind_one_of is Ok(Some(_)); bound is cleared per archetype and the archetype is kept iff bound.len()==params.len(); C05-R2 contains_component compares whole Strings over all components; "
    "C05-R3 bind_one_of loops all members, second hit is an error, returns the unique hit; C05-R4 each generator emits per archetype iff bound_params.get(&name) is Some and errors when nothing matched. "
    "Sampled part: static analysis of the specimen expansions against an independent matcher (hand-written from the specimen declaration). Decides: C05-R7 for each of 29 query sites over 5 macros, the set of world fields walked / match arms present "
    "equals the set of archetypes the matcher computes (components, OneOf with exactly one hit, typed entity parameters, cfg-disabled parameters); C05-R5 each find arm fetches from the archetype of its own variant, "
    "the closure only runs inside .map of that fetch, and the fall-through arm returns None without running a closure; C05-R9 an iter expansion ends only by Break or after the loop of every matched archetype was entered and exhausted (no early way out that skips later matched archetypes). "
    "Compile-time witnesses (E4, generated): C05-R8 a seeded corpus of generated (world, query) programs over five worlds with overlapping, prefix-named component sets and all five query macros (quick 720, thorough 21600 queries in three independent samples): rustc's type checker decides that the closure body "
    "is instantiated for exactly the oracle's archetypes (an `impl Seen<MatchedArchetype>` per copy of the body against a `Seen<A0>+Seen<A1>..` bound for the iter family; an `Allowed` marker bound for over-matching in all five), that each parameter has its own column's type "
    "(OneOf through an associated type chosen by the oracle), and that empty match sets and ambiguous OneOf are rejected with the generator's message. The oracle is written from the property text."
    "Reporting policy: a finding of the structural rules on the generator's own code (its MIR and template tokens: shape recognisers) is reported only if the generated-program corpus of this property also reports a difference or did not run in full; otherwise it is recorded in the evidence as an unconfirmed structural finding (a behaviour-preserving refactoring of the generator is not an alarm).",
    not_decided="nothing about run-time entity sets; these rules sample query programs -- the universal rules on the binder functions of the macro crate are listed separately",
)

prop(
    "C07",
    rules=["C07-R1", "C07-R2", "C07-R5"],
    mir_rules=[SP.rule_iter_loops, SP.rule_mints],
    floors={"C07-R1": 30, "C07-R2": 20, "C07-R5": 4},
    explanation="Static analysis of the ecs_iter_destroy! expansions in the specimen. Decides: C07-R1 each matched archetype is walked by a descending loop over Rev(Range(0, len)) with len read once before the loop, slices re-fetched in every iteration "
    "before the single closure call; C07-R2 the four EcsStepDestroy values map to {next index, leave the query, one destroy then next index, one destroy then leave}, the entity destroyed is entities[idx] of the visit just made, "
    "From<EcsStep>/From<()> map as documented; C07-R5 direct handles handed to the closure carry the archetype generation current at the mint (not one read before an earlier iteration's destroy).",
    not_decided="the statement over all 4^n decision functions follows from R1-R2 and C02-R3 by the standard descending-walk argument; it is not enumerated",
)

prop(
    "C14",
    rules=["C14-R1", "C14-R2", "C14-R3", "C14-R4", "C14-R5", "C14-R6", "C14-R7"],
    mir_rules=[E.rule_layout, E.rule_conversions, E.rule_transmutes, E.rule_eq_hash, SP.rule_tables],
    floors={"C14-R1": 10, "C14-R2": 14, "C14-R3": 4, "C14-R4": 5, "C14-R5": 40, "C14-R6": 8, "C14-R7": 4},
    explanation="Static analysis; these functions are straight-line bit operations and table lookups, total on their 2^32 domain by construction, so agreement of their constants decides them for all inputs. Decides: C14-R1 pack "
    "(index<<8 | zext(id)), archetype_id() (key as u8) and slot/dense_index (key>>8) agree with ARCHETYPE_ID_BITS == 8 and nobody else reads `key`; C14-R2 typed<->dynamic conversions succeed iff id(key)==A::ARCHETYPE_ID and carry the value unchanged; "
    "C14-R3 raw()/from_raw() are mutually inverse and from_raw rejects only generation 0; C14-R4 the 4 transmutes are &W->&I with W repr(transparent) over its only non-ZST field I, same lifetime and mutability; "
    "C14-R5 the six generated TryFrom dispatch tables and SelectArchetype::archetype_id map id k to the archetype whose ARCHETYPE_ID is k, each archetype once, otherwise Err; C14-R6 Hash reads a subset of what Eq compares and Eq compares every field; C14-R7 typed archetype_id()/new use A::ARCHETYPE_ID.",
    not_decided="behaviour of HashSet/HashMap (std)",
)

prop(
    "C15",
    rules=["C15-R1", "C15-R2", "C15-R3", "C15-R4", "C15-R7", "C16-R4", "C15-R6", "C15-R8", "C15-R5", "C14-R5", "C15-R9"],
    static_rules=[T.rule_template_shapes, CP.rule_id_corpus],
    static_floors={'C15-R6': 1, 'C15-R8': 400},
    mir_rules=[M.rule_advance_id, M.rule_dataworld, SP.rule_tables],
    floors={"C15-R1": 5, "C15-R2": 5, "C15-R3": 20, "C15-R4": 2, "C15-R7": 10},
    explanation="Static analysis, universal over declarations (on the generator's own MIR): C15-R1 advance_attribute_id returns Ok(Some(next)) with exactly three origins under exactly these guards: explicit id iff present, else checked_add(previous, 1) iff a previous id exists, else 0; "
    "overflow of checked_add is an error; C15-R2 every Ok is on the None edge of ids.insert(next, _), the Some edge is an error; C15-R3 in DataWorld::new archetypes are visited front to back with one shared id map and a loop-carried previous id, "
    "components get a fresh map and previous=None inside each archetype iteration, cfg-disabled items are skipped before id assignment; C15-R4 DataArchetype.id/DataComponent.id are the ids just assigned. "
    "Sampled: C15-R7 the evaluated ARCHETYPE_ID/COMPONENT_ID/NUM_ARCHETYPES constants of the specimen equal an independent oracle. "
    "Compile-time witnesses (E4, generated): C15-R8 every assignment of {implicit, 0, 1, 5, 254, 255} to 3 (thorough: also 4) archetypes and to 3 (4) components is compiled with `const _: () = assert!(..)` on ARCHETYPE_ID, ArchetypeHas::COMPONENT_ID, ecs_component_id! and NUM_ARCHETYPES "
    "against an independent re-statement of the discriminant rule; declarations with a duplicate id or counting past 255 must be rejected with the generator's message (quick 432, thorough 3024 declarations); C15-R5 an id literal of 255 is accepted as written, literals above 255 are rejected; C14-R5 (shared with C14) the generated Select* conversions and SelectArchetype::archetype_id report exactly these ids (each declared id once, every other id rejected)."
    "Reporting policy: a finding of the structural rules on the generator's own code (its MIR and template tokens: shape recognisers) is reported only if the generated-program corpus of this property also reports a difference or did not run in full; otherwise it is recorded in the evidence as an unconfirmed structural finding (a behaviour-preserving refactoring of the generator is not an alarm).",
    not_decided="token emission of the ids (quote! interpolation) is witnessed on the specimen constants, not proved for all declarations",
)

prop(
    "C16",
    rules=["C16-R1", "C16-R3", "C16-R4", "C16-R5", "C16-R2", "C16-R6", "C16-R7"],
    static_rules=[T.rule_template_shapes, CP.rule_id_corpus, CP.rule_query_corpus],
    static_floors={'C16-R2': 10, 'C16-R4': 9, 'C16-R6': 600, 'C16-R7': 350},
    mir_rules=[M.rule_collectors, M.rule_cfg_lookup, M.rule_dataworld, M.rule_bind_query_params],
    floors={"C16-R1": 15, "C16-R3": 12, "C16-R4": 6, "C16-R5": 1},
    explanation="Static analysis on the macro crate's MIR: C16-R1 the expand side and the impl side of each of the six entry kinds use the same HasCfgPredicates impl (same T), the query impls delegate to one get_cfg_predicates, both collectors push a predicate iff "
    "HashSet::insert(to_string(predicate)) reports it new (first-appearance order); C16-R3 ParseCfgDecorated::parse inserts (to_string(predicate_i), state_i) over zip(predicates, states) after asserting equal lengths, evaluate_cfgs/is_cfg_enabled look up "
    "to_string(cfg.predicate) and form the conjunction; C16-R4 disabled archetypes/components are skipped before ids, structs and matching see them, disabled query parameters bind to every archetype (C05-R1 !enabled disjunct); C16-R5 cfg on OneOf is rejected. "
    "Compile-time witnesses (E4, generated): C16-R6 declarations decorated with every ordered triple of six distinct always-true/always-false predicates on archetypes and components at once, pairs/triples of #[cfg] on one item (conjunction), and cfg states x ids at the 255 boundary: "
    "const assertions on ids/NUM_ARCHETYPES and trait presence equal the oracle applied to the declaration with disabled items deleted; C16-R7 generated queries with cfg-decorated parameters and worlds with disabled archetypes/components are expanded for exactly the archetypes "
    "of the same query with disabled parameters deleted (type-checker witnesses as C05-R8); both corpora are judged differentially against the reduced twin compiled alongside."
    "Reporting policy: a finding of the structural rules on the generator's own code (its MIR and template tokens: shape recognisers) is reported only if the generated-program corpus of this property also reports a difference or did not run in full; otherwise it is recorded in the evidence as an unconfirmed structural finding (a behaviour-preserving refactoring of the generator is not an alarm).",
    not_decided="that rustc evaluates cfg (trusted); the literal shape of the generated probe chain and the #attrs emission are judged by the template rules",
)

prop(
    "C18",
    rules=["C18-R1", "C18-R2", "C18-R3", "C18-R4", "C18-R5", "C18-R6"],
    static_rules=[T.rule_templates_unsafe_free, W.rule_compile_fail],
    static_floors={"C18-R1": 88, "C18-R5": 40},
    mir_rules=[X.rule_lifetimes, X.rule_unsafe_surface, M.rule_param_parser],
    floors={"C18-R3": 1500, "C18-R4": 3, "C18-R6": 6},
    explanation="Static analysis. Universal parts: C18-R1 token scan (proc-macro2 lexer) of every quote!/quote_spanned!/format_ident! template and every Ident::new literal of the generator: no `unsafe`, no no_mangle/export_name/link_section/link/naked/allow(unsafe_code), "
    "no extern block, no static mut -- every other emitted token is a declared name, a literal or the user's own tokens; C18-R3 from fn_sig of every fn of gecs and of the specimen expansion: every region of the return type occurs in a parameter type or is 'static, raw-pointer structs tie their lifetime to PhantomData<&'a ..>; "
    "C18-R4 the only unsafe impls are Send/Sync for DataPtr<T> bounded on T, generated code has none; C18-R6 the parameter parser rejects `&mut` for exactly the entity kinds (derived from the enum's variants). "
    "Witnessed parts: C18-R2 the specimen client crate is forbid(unsafe_code) and compiles in every configuration; C18-R5 28 minimal unsound client programs (use of a reference / guard / view across create, destroy or clone, two mutable accesses, `&mut` on each of the six entity parameter kinds over all five macros, Send/Sync of worlds following the components, private and unsafe items) are rejected with the stated error code / macro message with the primary span on the marked line, and each sound twin compiles. "
    "C18-R6 is a shape recogniser on the parser: its findings are reported only if one of the `&mut` entity witnesses fails as well.",
    not_decided="soundness of gecs' internal unsafe code as a whole is the subject of C01-C04/C10; the witness corpus samples client programs",
)

prop(
    "C19",
    rules=["C19-R1", "C19-R2", "C19-R3", "C19-R4", "C19-R5", "C19-R6", "C19-R7", "C19-R8", "C08-R2"],
    static_rules=[T.rule_cfg_inventory],
    static_floors={"C19-R1": 15, "C19-R2": 20, "C19-R6": 3},
    mir_rules=[X.rule_debug_checks, S.rule_version_next, X.rule_assumes],
    floors={"C19-R3": 1, "C19-R7": 20},
    explanation="Static analysis. Decides: C19-R1 every cfg/cfg_attr attribute and cfg!() invocation in both crates (token-level, including inside macro_rules bodies) uses one of the documented predicates (the three features, debug_assertions, doc) and emitted templates only repeat the user's own predicate -- sites are neither counted nor keyed by position; "
    "C19-R2 each gated region is confined by the rule of its predicate class wherever it sits: `events` gates mention only the event logs and assign no core field, `wrapping_version` gates contain only the successor computation (wrapping_add(1) / checked_add(1)) and both polarities are paired per function, `32_components` gates are the 17..=32 twins of the ungated instantiations; "
    "C19-R3 (G-DBG) every debug_assert* region of gecs (found on the CFG by its `if cfg!(debug_assertions)` switch) is effect free: no store through a pointer, no mutable borrow of state, only calls without write effect -- so assertions on/off cannot change state; "
    "C19-R4 every rule of every other property is evaluated in each analysed configuration (quick: 3, thorough: all 16) and a rule instance that fails in some configurations but not in others is reported here; C19-R5 the wrapping next() has neither a panic nor an unchecked operation, "
    "generations are only compared (C03-R3); C19-R6 Cargo feature wiring (events forwards to gecs_macros/events only); "
    "C19-R7 every debug_checked_assume! (a panic with debug assertions, unreachable_unchecked without) is implied by a reviewed invariant with its constant on the safe side, so the two profiles cannot diverge on a legal value.",
    not_decided="no run-time behaviour is compared across configurations; the claim is as strong as the per-property structural claims",
)


# ---- explanations of the rules added in round 6 (appended so that the texts above stay as reviewed) ----
_MORE = {
    "C05": " C05-R10 (generated corpus, rustc's type checker decides) queries whose parameters carry one or several #[cfg] attributes are expanded for exactly the archetypes their enabled parameters select.",
    "C09": " C09-R6 also covers every entry that takes a direct key (contains, resolve, view, borrow, destroy, find): inside gecs a direct key is validated only by a function that itself takes a direct key -- in the end the direct resolver, which compares the archetype version -- never by re-deriving an Entity from the dense index.",
    "C10": " C10-R8 if unwinding out of a panicking cell drop runs a guard that goes on dropping cells, a store into that guard inside the loop dominates the drop_in_place call (its cursor is past the cell before the cell's drop runs), so the panicking cell is not dropped a second time.",
    "C04": " C10-R8 (shared with C10) a continuation guard on the unwind path of a cell drop has its cursor past the cell before the drop is called.",
    "C12": " C12-R6 clone carries slot i over for every i in 0..capacity next to the source's len (a partly copied slot array makes the clone's len() disagree with the entities its handles resolve to).",
    "C15": " C15-R9 the cfg-decorated half of the declaration corpus: the enabled items carry the ids the discriminant rule assigns over the enabled items alone, and a declaration is rejected iff the same declaration without its disabled items is.",
    "C19": " C19-R8 no bare arithmetic operator (and no overflow assert) on the way to a successor generation: with one, the build profile (-C overflow-checks) instead of the wrapping_version feature would decide whether the documented overflow panic happens; C08-R2 (shared with C08) the successor is checked_add(1)+panic without the feature in debug and release alike.",
}
for _k, _v in _MORE.items():
    PROPS[_k]["explanation"] = PROPS[_k]["explanation"].rstrip() + _v
