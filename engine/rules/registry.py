"""Which rules decide which property; texts that go into the evidence / manifest."""
from . import r_storage as S

COMMON_ASSUMPTIONS = [
    "rustc nightly front end, MIR construction and trait resolution are correct; the mirfacts extractor serialises MIR faithfully",
    "std semantics of RefCell, Vec, slice iterators, NonNull/raw pointer primitives and the global allocator (trusted, classified by closed tables)",
    "representation invariants I1-I4 (DESIGN.md 2.2) hold in the state an operation starts from: the rules check each operation's necessary steps, not the induction over histories",
    "generated code is uniform over archetypes/components (one template, repeated), so judgements on the specimen crate generalise to other declarations",
    "debug checks (debug_assert*, debug_checked_assume!) are treated as absent for structural rules; rule G-DBG separately requires them to be effect free",
]


def n_storages(ctx):
    return len(ctx.storages())


PROPS = {}


def prop(pid, **kw):
    PROPS[pid] = kw


prop(
    "C01",
    mir_rules=[S.rule_entity_resolver, S.rule_remover, S.rule_slot_primitives],
    floors={
        "C01-R1": lambda c: 8 * n_storages(c),
        "C01-R3": lambda c: n_storages(c) + 2,
        "C01-R4": lambda c: 2 * n_storages(c),
    },
    explanation="Static analysis (path-wise symbolic evaluation of MIR, all StorageN found by role). Decides: C01-R1 the Entity key resolver accepts on exactly one "
    "path whose condition is {slot_index<capacity, slot.version==key.version, !is_free(slot)} (+len!=0) and nothing else, and returns (key slot, dense index stored in that slot); "
    "C01-R3 every remover releases the resolved slot and Slot::release bumps the generation unconditionally; C01-R4 the swap-remove fix-up re-points the last entity's slot, "
    "read before the move, before the release; C01-R5/C08-R5 no other code writes or resets a slot generation.",
    not_decided="that I3/I4 hold after every history (no matter how often a position is reused) is an inductive invariant; the rules are the per-operation premises of that induction",
)

prop(
    "C02",
    mir_rules=[S.rule_creator, S.rule_remover, S.rule_extent],
    floors={"C02-R1": lambda c: 3 * n_storages(c), "C02-R2": lambda c: 4 * n_storages(c), "X-EXT": lambda c: 40 * n_storages(c)},
    explanation="Static analysis. Decides: C02-R1 the creator writes the handle and all N components at one index = pre-increment len, component i into column i; "
    "C02-R2 the remover swap_removes all N+1 arrays at the resolved dense index with the pre-decrement len and returns the values moved out of columns 0..N-1 in order; "
    "X-EXT every slice/raw view of an array is cut at the extent it is valid for (len for dense arrays, capacity for slots), fresh at the call.",
    not_decided="that columns stay in lock-step over histories (I2/I3); value equality is never computed",
)

prop(
    "C03",
    mir_rules=[S.rule_entity_resolver, S.rule_direct_resolver, S.rule_extent],
    floors={"C03-R1": lambda c: 4 * n_storages(c), "C03-R7": lambda c: 2 * n_storages(c)},
    explanation="Static analysis. Decides: C03-R1/R7 every unchecked read whose index derives from a key is dominated by the exact bounds guard against the extent of the array it indexes "
    "and by the generation / free-bit guard before slot contents are used as an index; X-EXT extents match the arrays.",
    not_decided="memory safety in states where I1-I4 do not hold; no sanitizer-style evidence is produced",
)

prop(
    "C08",
    mir_rules=[S.rule_version_next, S.rule_creator, S.rule_slot_primitives, S.rule_remover],
    floors={"C08-R2": 2, "C08-R3": lambda c: 5 * n_storages(c), "C08-R5": 3},
    explanation="Static analysis. Decides: C08-R2 the successor generation is checked_add(1) with a panic and no value on overflow (default) resp. wrapping_add(1) mapped away from zero (wrapping_version); "
    "C08-R3 a created handle carries the popped slot index, that slot's current generation and the storage's own A::ARCHETYPE_ID, and is the value stored and returned; "
    "C01-R3 every removal bumps the released slot's generation; C08-R5 generations are never reset.",
    not_decided="I4 (the free list yields each free position once) over histories; reuse after wraparound in the wrapping_version build is the documented exception",
)

prop(
    "C09",
    mir_rules=[S.rule_direct_resolver, S.rule_remover, S.rule_creator],
    floors={"C09-R1": lambda c: 5 * n_storages(c), "C09-R2": lambda c: n_storages(c), "C09-R3": lambda c: n_storages(c)},
    explanation="Static analysis. Decides: C09-R1 the direct resolver accepts on exactly one path guarded by {key.version==self.version, dense_index<len}; "
    "C09-R2 every remover stores version<-version.next() unconditionally; C09-R3 creators write only at index old-len and never touch version.",
    not_decided="the temporal statement (issued at t, used at t') over histories",
)

prop(
    "C12",
    mir_rules=[S.rule_creator, S.rule_remover],
    floors={"C12-R1": lambda c: 4 * n_storages(c), "C12-R4": lambda c: 3 * n_storages(c)},
    explanation="Static analysis. Decides: C12-R1 len changes by exactly +1 in the creator and -1 in the remover, capacity is written by neither; "
    "C12-R4 the free-list pop (creator) and push (remover) are locally correct list operations.",
    not_decided="that the free list holds exactly capacity-len positions after arbitrary histories (I4)",
)
