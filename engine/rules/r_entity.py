"""Handle packing / conversion / decode-width rules over gecs' generic MIR: C14, C03-R4/R5/R6, C08-R4."""
from .core import where_of, cname
from .norm import N, NL, atom, path_atoms, is_call, subterms, contains
from .sym import show
from .r_storage import SELF, sf, describe_atoms, is_some, is_none, untrim, storage_units
from .r_storage2 import branch_atoms

ANY = {"EntityAny": ("slot_index", "SlotVersion", "Entity"), "EntityDirectAny": ("dense_index", "ArchetypeVersion", "EntityDirect")}


def NK(V):
    return N(V, keep=True)


def getfn(ctx, R, path):
    f = ctx.gecs.fns.get(path)
    if f is None:
        R.anchor_missing(path)
    return f


def single(ctx, R, rule, f, key):
    ps = ctx.paths(f)
    if ps is None or len(ps) != 1 or ps[0].end != "return":
        R.fail(rule, key + "|single-path", "%s is expected to be one straight-line path; found %s" % (key, None if ps is None else [str(p.end) for p in ps]), where_of(f), fn=f.key)
        return None
    return ps[0]


def const_val(ctx, R, path):
    c = ctx.gecs.consts.get(path)
    if c is None or "v" not in c:
        R.anchor_missing("const " + path)
        return None
    return c["v"]


def rule_layout(ctx, R):
    """C14-R1 / C08-R4 / C03-R4: pack and unpack agree on the bit layout; widths fit."""
    bits = const_val(ctx, R, "entity::ARCHETYPE_ID_BITS")
    maxcap = const_val(ctx, R, "index::MAX_DATA_CAPACITY")
    maxidx = const_val(ctx, R, "index::MAX_DATA_INDEX")
    free_bit = const_val(ctx, R, "archetype::slot::FREE_BIT")
    free_end = const_val(ctx, R, "archetype::slot::FREE_LIST_END")
    if None in (bits, maxcap, maxidx, free_bit, free_end):
        return
    R.check(bits == 8, "C14-R1", "const|ARCHETYPE_ID_BITS", "ARCHETYPE_ID_BITS == 8 == bits(ArchetypeId)", "ARCHETYPE_ID_BITS is %d; the archetype id type is u8" % bits, None)
    R.check(maxcap == 1 << (32 - bits), "C03-R4", "const|MAX_DATA_CAPACITY", "MAX_DATA_CAPACITY == 1 << (32 - ARCHETYPE_ID_BITS) == %d" % maxcap,
            "MAX_DATA_CAPACITY is %d; an index must fit in the %d bits left of the archetype id" % (maxcap, 32 - bits), None)
    R.check(maxcap == 16777216, "C12-R5", "const|2^24", "MAX_DATA_CAPACITY == 16,777,216", "MAX_DATA_CAPACITY is %d; documented limit is 16,777,216" % maxcap, None)
    R.check(maxidx == maxcap - 1, "C03-R4", "const|MAX_DATA_INDEX", "MAX_DATA_INDEX == MAX_DATA_CAPACITY - 1", "MAX_DATA_INDEX is %d" % maxidx, None)
    R.check(free_bit == 1 << 31 and free_bit > maxidx, "C03-R4", "const|FREE_BIT", "FREE_BIT == 1<<31 is above every data index", "FREE_BIT is %d, MAX_DATA_INDEX %d" % (free_bit, maxidx), None)
    R.check((free_end & free_bit) != 0 and (free_end & ~free_bit) >= maxcap, "C03-R4", "const|FREE_LIST_END", "FREE_LIST_END carries the free bit and is not a valid index",
            "FREE_LIST_END is %d: it must have the free bit set and its index part must be >= MAX_DATA_CAPACITY" % free_end, None)
    # TrimmedIndex constructors guard exactly Lt(x, MAX)
    for nm in ("new_u32", "new_usize"):
        f = getfn(ctx, R, "index::TrimmedIndex::" + nm)
        if f is None:
            continue
        ps = ctx.paths(f)
        some = [p for p in ps or () if p.end == "return" and is_some(N(p.ret))]
        none = [p for p in ps or () if p.end == "return" and is_none(N(p.ret))]
        lt = ("cmp", "Lt", ("arg", 1), ("const", maxcap))
        ok = len(ps or ()) == 2 and len(some) == 1 and len(none) == 1 and branch_atoms(some[0]) == [(lt, True)] and branch_atoms(none[0]) == [(lt, False)]
        okv = ok and N(some[0].ret)[4][0][1][0] == "agg" and N(some[0].ret)[4][0][1][4][0][1] == ("arg", 1)
        R.check(ok and okv, "C03-R4", "TrimmedIndex::%s|guard" % nm, "Some(x) iff x < MAX_DATA_CAPACITY",
                "TrimmedIndex::%s must return Some(the argument) exactly when Lt(x, MAX_DATA_CAPACITY); found %s" % (nm, [describe_atoms(branch_atoms(p)) for p in ps or ()]), where_of(f), fn=f.key)
    # who may build a TrimmedIndex aggregate
    for path, fn in sorted(ctx.gecs.fns.items()):
        for b in fn.blocks:
            for s in b["st"]:
                if s["k"] == "assign" and s["rv"]["k"] == "agg" and s["rv"].get("adt") == "index::TrimmedIndex":
                    ok = path in ("index::TrimmedIndex::new_u32", "index::TrimmedIndex::new_usize", "index::TrimmedIndex::zero")
                    R.check(ok, "C03-R4", "TrimmedIndex-constructor|%s" % fn.short(), "TrimmedIndex only built by its guarded constructors", "%s constructs a TrimmedIndex directly" % fn.short(), where_of(fn, s["s"]), fn=fn.key)
    for any_ty, (idx_fn, ver_ty, typed) in ANY.items():
        f = getfn(ctx, R, "entity::%s::new" % any_ty)
        if f is not None:
            p = single(ctx, R, "C14-R1", f, any_ty + "::new")
            if p is not None:
                ret = NK(p.ret)
                d = dict(ret[4]) if ret[0] == "agg" else {}
                k = d.get("key")
                ok = k is not None and k[0] == "bin" and k[1] == "BitOr" and k[2][0] == "bin" and k[2][1] == "Shl" and k[2][3] == ("const", bits)
                if ok:
                    idx, idv = k[2][2], k[3]
                    ok = idx == ("vfield", ("arg", 1), "0") and idv == ("arg", 2)
                R.check(ok, "C14-R1", any_ty + "::new|pack", "key = (index << %d) | zext(archetype id)" % bits,
                        "%s::new packs key as %s; expected (index << ARCHETYPE_ID_BITS) | archetype_id" % (any_ty, show(k)), where_of(f), fn=f.key)
                R.check(d.get("version") == ("arg", 3), "C14-R1", any_ty + "::new|version", "version stored unchanged", "version field is %s" % show(d.get("version")), where_of(f), fn=f.key)
                sig = f.sig() or {}
                R.check(len(sig.get("inputs", [])) == 3 and sig["inputs"][1] == "u8" and sig["inputs"][0] == "index::TrimmedIndex", "C08-R4", any_ty + "::new|widths", "index is a TrimmedIndex (< 2^24), id is u8: no bit shared or lost",
                        "%s::new takes %s; packing is injective only for a 24-bit index and an 8-bit id" % (any_ty, sig.get("inputs")), where_of(f), fn=f.key)
        f = getfn(ctx, R, "entity::%s::archetype_id" % any_ty)
        if f is not None:
            p = single(ctx, R, "C14-R1", f, any_ty + "::archetype_id")
            if p is not None:
                ret = NK(p.ret)
                ok = ret[0] == "cast" and ret[1] == "IntToInt" and ret[3] == "u8" and ret[2] == ("vfield", ("arg", 1), "key")
                R.check(ok, "C14-R1", any_ty + "::archetype_id|unpack", "archetype id = low 8 bits of key", "archetype_id() returns %s; expected `key as u8`" % show(ret), where_of(f), fn=f.key)
        f = getfn(ctx, R, "entity::%s::%s" % (any_ty, idx_fn))
        if f is not None:
            p = single(ctx, R, "C14-R1", f, any_ty + "::" + idx_fn)
            if p is not None:
                ret = NK(p.ret)
                raw = untrim(ret)
                ok = raw[0] == "bin" and raw[1] == "Shr" and raw[3] == ("const", bits) and raw[2] == sf("key") and raw != ret
                R.check(ok, "C14-R1", any_ty + "::" + idx_fn + "|unpack", "index = key >> %d" % bits, "%s() returns %s; expected new_u32(key >> ARCHETYPE_ID_BITS)" % (idx_fn, show(ret)), where_of(f), fn=f.key)
                # the unwrap_unchecked is discharged by the widths: (u32 >> 8) < 2^24
                R.check(32 - bits == 24 and maxcap == 1 << 24, "C03-R4", any_ty + "::" + idx_fn + "|unwrap-discharged", "for every 32-bit key, key >> 8 < 2^24 = MAX_DATA_CAPACITY", "decode width does not fit the index limit", where_of(f), fn=f.key)
    # no other arithmetic on `key`: the field is read only by the functions above + raw/hash/eq/fmt
    allowed = ("::new", "::archetype_id", "::slot_index", "::dense_index", "::raw", "Hash>::hash", "PartialEq>::eq", "::from_raw")
    for path, fn in sorted(ctx.gecs.fns.items()):
        reads = False
        for b in fn.blocks:
            for s in b["st"]:
                if s["k"] == "assign" and "key" in str(s["rv"]) and '"n": "key"' in __import__("json").dumps(s["rv"]):
                    reads = True
        if reads:
            ok = any(path.endswith(a) or (a in path) for a in allowed)
            R.check(ok, "C14-R1", "key-reader|%s" % fn.short(), "key bits read by %s" % fn.short(), "%s reads the packed `key` field; only pack/unpack/raw/hash/eq may" % path, where_of(fn), fn=fn.key)


def rule_conversions(ctx, R):
    """C14-R2, C14-R3, C14-R7, C03-R6."""
    for any_ty, (idx_fn, ver_ty, typed) in ANY.items():
        idexpr = ("cast", "IntToInt", ("vfield", ("arg", 1), "key"), "u8")
        f = getfn(ctx, R, "entity::%s::<A>::into_any" % typed)
        if f is not None:
            p = single(ctx, R, "C14-R2", f, typed + "::into_any")
            if p is not None:
                R.check(N(p.ret) == ("vfield", ("arg", 1), "inner"), "C14-R2", typed + "::into_any", "value preserving (.inner)", "into_any returns %s" % show(N(p.ret)), where_of(f), fn=f.key)
        fr = [fn for pth, fn in ctx.gecs.fns.items() if pth == "<entity::%s as std::convert::From<entity::%s<A>>>::from" % (any_ty, typed)]
        if not fr:
            R.anchor_missing("From<%s<A>> for %s" % (typed, any_ty))
        for f in fr:
            p = single(ctx, R, "C14-R2", f, "From<%s>" % typed)
            if p is not None:
                R.check(N(p.ret) == ("vfield", ("arg", 1), "inner"), "C14-R2", "From<%s> for %s" % (typed, any_ty), "value preserving (.inner)", "from() returns %s" % show(N(p.ret)), where_of(f), fn=f.key)
        # the dynamic->typed conversions are also what keeps a handle of another archetype out of the typed resolvers:
        # the same instances are judged for C03 (foreign handles never match) and, for direct handles, for C09
        ids2 = ["C14-R2", "C03-R8"] + (["C09-R7"] if typed == "EntityDirect" else [])

        def chk(cond, key, okd, faild, where=None, fn=None, _ids=ids2):
            for rid in _ids:
                R.check(cond, rid, key, okd, faild, where, fn=fn)

        def flr(key, detail, where=None, fn=None, _ids=ids2):
            for rid in _ids:
                R.fail(rid, key, detail, where, fn=fn)
        tf = [fn for pth, fn in ctx.gecs.fns.items() if pth == "<entity::%s<A> as std::convert::TryFrom<entity::%s>>::try_from" % (typed, any_ty)]
        if not tf:
            R.anchor_missing("TryFrom<%s> for %s<A>" % (any_ty, typed))
        for f in tf:
            ps = ctx.paths(f)
            key = "TryFrom<%s> for %s" % (any_ty, typed)
            ok_paths = ps is not None and len(ps) == 2
            if not ok_paths:
                flr(key + "|paths", "expected exactly an Ok and an Err path", where_of(f), fn=f.key)
                continue
            for p in ps:
                ret = NK(p.ret)
                ats = [atom(c, keep=True) for c in p.conds if c[2] == "branch"]
                eq = None
                if len(ats) == 1 and ats[0][0][0] == "cmp" and ats[0][0][1] == "Eq":
                    a, b = ats[0][0][2], ats[0][0][3]
                    if a == idexpr and b[0] == "uneval" and b[1].endswith("Archetype::ARCHETYPE_ID") and b[2] and b[2][0] == "A":
                        eq = ats[0][1]
                if ret[0] == "agg" and ret[3] == "Ok":
                    pay = ret[4][0][1]
                    okp = pay[0] == "agg" and dict(pay[4]).get("inner") == ("arg", 1)
                    chk(eq is True and okp, key + "|ok", "Ok(handle with the argument as inner) iff id(key) == A::ARCHETYPE_ID",
                            "Ok path: guard %s payload %s" % (describe_atoms(ats), show(pay)), where_of(f), fn=f.key)
                elif ret[0] == "agg" and ret[3] == "Err":
                    okp = ret[4][0][1][0] == "agg" and ret[4][0][1][3] == "InvalidEntityType"
                    chk(eq is False and okp, key + "|err", "Err(InvalidEntityType) otherwise", "Err path: guard %s value %s" % (describe_atoms(ats), show(ret)), where_of(f), fn=f.key)
                else:
                    flr(key + "|ret", "unexpected return %s" % show(ret), where_of(f), fn=f.key)
        f = getfn(ctx, R, "entity::%s::<A>::from_any" % typed)
        if f is not None:
            ps = ctx.paths(f)
            key = typed + "::from_any"
            for p in ps or ():
                ats = [atom(c, keep=True) for c in p.conds if c[2] == "branch"]
                good = len(ats) == 1 and ats[0][0][0] == "cmp" and ats[0][0][1] == "Eq" and ats[0][0][2] == idexpr
                if p.end == "return":
                    ret = N(p.ret)
                    chk(good and ats[0][1] is True and dict(ret[4]).get("inner") == ("arg", 1), key + "|ok", "returns the handle iff ids match", "from_any returns under %s" % describe_atoms(ats), where_of(f), fn=f.key)
                else:
                    chk(good and ats[0][1] is False and isinstance(p.end, tuple) and p.end[0] == "diverge", key + "|panic", "panics iff ids differ", "from_any diverges under %s" % describe_atoms(ats), where_of(f), fn=f.key)
            chk(ps is not None and len(ps) == 2, key + "|paths", "two paths", "from_any has %s paths" % (None if ps is None else len(ps)), where_of(f), fn=f.key)
        f = getfn(ctx, R, "entity::%s::<A>::from_any_unchecked" % typed)
        if f is not None:
            p = single(ctx, R, "C14-R2", f, typed + "::from_any_unchecked")
            if p is not None:
                ret = N(p.ret)
                R.check(ret[0] == "agg" and dict(ret[4]).get("inner") == ("arg", 1), "C14-R2", typed + "::from_any_unchecked", "payload = argument, no non-debug check", "returns %s" % show(ret), where_of(f), fn=f.key)
        f = getfn(ctx, R, "entity::%s::<A>::archetype_id" % typed)
        if f is not None:
            p = single(ctx, R, "C14-R7", f, typed + "::archetype_id")
            if p is not None:
                ret = N(p.ret)
                R.check(ret[0] == "uneval" and ret[1].endswith("Archetype::ARCHETYPE_ID") and ret[2] and ret[2][0] == "A", "C14-R7", typed + "::archetype_id", "typed archetype_id() = A::ARCHETYPE_ID", "returns %s" % show(ret), where_of(f), fn=f.key)
        f = getfn(ctx, R, "entity::%s::<A>::new" % typed)
        if f is not None:
            p = single(ctx, R, "C14-R7", f, typed + "::new")
            if p is not None:
                cs = [e for e in p.effects if e[0] == "call" and cname(e[2]).endswith(any_ty + "::new")]
                ok = len(cs) == 1 and N(cs[0][3][0]) == ("arg", 1) and N(cs[0][3][2]) == ("arg", 2) and N(cs[0][3][1])[0] == "uneval" and N(cs[0][3][1])[1].endswith("Archetype::ARCHETYPE_ID") and N(cs[0][3][1])[2][0] == "A"
                R.check(ok, "C14-R7", typed + "::new|id", "typed handles are minted with A::ARCHETYPE_ID of the same A", "%s::new calls %s" % (typed, [[show(N(a)) for a in e[3]] for e in cs]), where_of(f), fn=f.key)
    # raw / from_raw
    f = getfn(ctx, R, "entity::EntityAny::raw")
    if f is not None:
        p = single(ctx, R, "C14-R3", f, "EntityAny::raw")
        if p is not None:
            ret = N(p.ret)
            ok = ret[0] == "agg" and ret[1] == "tuple" and ret[4][0][1] == sf("key") and is_call(ret[4][1][1], "NonZero::get") and ret[4][1][1][2][0] == ("load", ("field", ("field", ("deref", SELF), "version"), "version"), 0)
            R.check(ok, "C14-R3", "EntityAny::raw", "raw() = (key, version.get())", "raw() returns %s" % show(ret), where_of(f), fn=f.key)
    f = getfn(ctx, R, "entity::EntityAny::from_raw")
    if f is not None:
        ps = ctx.paths(f)
        key = "EntityAny::from_raw"
        R.check(ps is not None and len(ps) == 2, "C14-R3", key + "|paths", "one Ok and one Err path", "from_raw has %s paths" % (None if ps is None else len(ps)), where_of(f), fn=f.key)
        nz = ("call", "std::num::NonZero::<T>::new", (("vfield", ("arg", 1), "1"),))
        # semantic form, indifferent to `?`/ok_or/match/if-let: the only thing from_raw decides on is whether
        # NonZero::new(raw.1) is Some; Ok carries raw.0 and that NonZero; Err is InvalidRawEntity
        def on_nz(c):
            return contains(c, lambda x: x == nz)

        def mentions_invalid_raw(v):
            return contains(v, lambda x: x[0] == "agg" and len(x) > 3 and x[3] == "InvalidRawEntity")

        for p in ps or ():
            if p.end != "return":
                R.fail("C03-R6", key + "|exit", "from_raw has a non-returning path %s" % (p.end,), where_of(f), fn=f.key)
                continue
            ret = N(p.ret)
            conds = [(N(c[0]), c[1]) for c in p.conds if c[2] == "branch"]
            dec_ok = len(conds) >= 1 and all(on_nz(c[0]) and not contains(c[0], lambda x: x == ("vfield", ("arg", 1), "0")) for c in conds)
            if ret[0] == "agg" and ret[3] == "Ok":
                pay = ret[4][0][1]
                d = dict(pay[4]) if pay[0] == "agg" else {}
                v = d.get("version")
                okv = v is not None and on_nz(v) and contains(v, lambda x: x[0] == "vdown" and x[2] in ("Continue", "Some", "Ok"))
                R.check(dec_ok and d.get("key") == ("vfield", ("arg", 1), "0") and okv, "C14-R3", key + "|ok", "Ok{key: raw.0, version: the NonZero of raw.1}, decided only by NonZero::new(raw.1)",
                        "Ok path yields %s under %s" % (show(pay)[:160], [show(c[0])[:80] for c in conds]), where_of(f), fn=f.key)
            else:
                err = mentions_invalid_raw(ret) or any(mentions_invalid_raw(c[0]) for c in conds)
                shape = (ret[0] == "agg" and ret[3] == "Err") or is_call(ret, "from_residual")
                R.check(dec_ok and err and shape, "C14-R3", key + "|err", "Err(InvalidRawEntity) iff raw.1 == 0, no other rejection", "Err path returns %s under %s" % (show(ret)[:160], [show(c[0])[:80] for c in conds]), where_of(f), fn=f.key)
    # C09-R5 / C14: new_entity_direct is value preserving
    f = getfn(ctx, R, "entity::__internal::new_entity_direct")
    if f is not None:
        p = single(ctx, R, "C09-R5", f, "new_entity_direct")
        if p is not None:
            ret = N(p.ret)
            try:
                inner = dict(ret[4])["inner"]
                k = dict(inner[4])["key"]
                v = dict(inner[4])["version"]
                raw = untrim(k[2][2])
                ok = k[0] == "bin" and k[1] == "BitOr" and k[2][1] == "Shl" and raw == ("arg", 1) and v == ("arg", 2) and k[3][0] == "uneval" and k[3][2][0] == "A"
            except Exception:
                ok = False
            R.check(ok, "C09-R5", "new_entity_direct", "EntityDirect{index = argument, version = argument, id = A::ARCHETYPE_ID}", "new_entity_direct returns %s" % show(ret)[:200], where_of(f), fn=f.key)


def rule_transmutes(ctx, R):
    """C14-R4: every transmute is a reference cast between a repr(transparent) wrapper and its only non-ZST field."""
    sites = []
    for path, fn in sorted(ctx.gecs.fns.items()):
        for b in fn.blocks:
            for s in b["st"]:
                if s["k"] == "assign" and s["rv"]["k"] == "cast" and s["rv"]["ck"] == "Transmute":
                    # debug builds add pointer-check transmutes (ptr -> usize) inside std macros; user code only
                    ms = s["s"]["m"]
                    if s["rv"]["ty"] in ("usize",) or s["rv"]["from"].startswith("*"):
                        continue
                    sites.append((fn, s))
    import re
    for fn, s in sites:
        frm, to = s["rv"]["from"], s["rv"]["ty"]
        m1 = re.match(r"^&('\w+ )?(mut )?(.+)$", frm)
        m2 = re.match(r"^&('\w+ )?(mut )?(.+)$", to)
        key = "transmute|%s" % fn.short()
        if not m1 or not m2:
            R.fail("C14-R4", key, "transmute from %s to %s is not a reference-to-reference cast" % (frm, to), where_of(fn, s["s"]), fn=fn.key)
            continue
        same_lt = m1.group(1) == m2.group(1)
        same_mut = m1.group(2) == m2.group(2)
        src_ty = m1.group(3)
        dst_ty = m2.group(3)
        adt_path = src_ty.split("<")[0]
        adt = ctx.gecs.adts.get(adt_path)
        ok = adt is not None and adt["transparent"]
        inner_ok = False
        if ok:
            fields = adt["variants"][0]["fields"]
            nonzst = [f for f in fields if not f["ty"].startswith("std::marker::PhantomData<")]
            inner_ok = len(nonzst) == 1 and nonzst[0]["ty"] == dst_ty
        R.check(ok and inner_ok and same_lt and same_mut, "C14-R4", key, "&%s%s -> &%s: repr(transparent) wrapper to its only non-ZST field, same lifetime and mutability" % (m1.group(2) or "", src_ty, dst_ty),
                "transmute %s -> %s: source must be #[repr(transparent)] with exactly one non-ZST field of the target type, with equal lifetime and mutability (transparent=%s inner_ok=%s same_lt=%s same_mut=%s)" % (frm, to, ok, inner_ok, same_lt, same_mut), where_of(fn, s["s"]), fn=fn.key)
    R.check(len(sites) == 4, "C14-R4", "transmute|count", "exactly 4 reference transmutes in gecs", "found %d transmute sites in gecs (reviewed: 4); a new one is unreviewed unsafe" % len(sites), None)


def rule_eq_hash(ctx, R):
    """C14-R6: fields fed to Hash are a function of the fields compared by Eq."""
    for any_ty, (idx_fn, ver_ty, typed) in ANY.items():
        h = [fn for pth, fn in ctx.gecs.fns.items() if pth == "<entity::%s as std::hash::Hash>::hash" % any_ty]
        e = [fn for pth, fn in ctx.gecs.fns.items() if pth == "<entity::%s as std::cmp::PartialEq>::eq" % any_ty]
        if not h or not e:
            R.anchor_missing("Hash/PartialEq for " + any_ty)
            continue
        hp = single(ctx, R, "C14-R6", h[0], any_ty + "::hash")
        hashed = set()
        if hp is not None:
            hc = [x for x in hp.effects if x[0] == "call" and not x[7] and cname(x[2]).endswith("hash")]
            for x in hc:
                for st in subterms(N(x[3][0])):
                    if st[0] == "load":
                        L = st[1]
                        while L[0] == "field":
                            if L[1] == ("deref", SELF):
                                hashed.add(L[2])
                            L = L[1]
            R.check(bool(hc), "C14-R6", any_ty + "::hash|feeds-hasher", "hash feeds the hasher once, deterministically", "hash() does not call the hasher", where_of(h[0]), fn=h[0].key)
        # fields compared on the `true` path of eq
        eps = ctx.paths(e[0])
        compared = set()
        for p in eps or ():
            if p.end != "return":
                continue
            ret = N(p.ret)
            if ret == ("const", False):
                continue
            for c in p.conds:
                for st in subterms(N(c[0])):
                    if st[0] in ("load", "ref"):
                        L = st[1]
                        while L[0] == "field":
                            if L[1] == ("deref", SELF):
                                compared.add(L[2])
                            L = L[1]
            for st in subterms(ret):
                if st[0] in ("load", "ref"):
                    L = st[1]
                    while L[0] == "field":
                        if L[1] == ("deref", SELF):
                            compared.add(L[2])
                        L = L[1]
        adt = ctx.gecs.adts.get("entity::" + any_ty)
        allf = {f["n"] for f in adt["variants"][0]["fields"]} if adt else set()
        R.check(bool(hashed) and hashed <= compared, "C14-R6", any_ty + "|hash-subset-of-eq", "hash reads %s, eq compares %s" % (sorted(hashed), sorted(compared)),
                "Hash reads fields %s but Eq only compares %s: equal handles could hash differently" % (sorted(hashed), sorted(compared)), where_of(h[0]), fn=h[0].key)
        R.check(compared == allf and bool(allf), "C14-R6", any_ty + "|eq-compares-all", "Eq compares every field %s" % sorted(allf),
                "Eq compares %s of the fields %s: handles of distinct entities could compare equal" % (sorted(compared), sorted(allf)), where_of(e[0]), fn=e[0].key)
        # typed wrappers delegate to .inner
        for tr, m in (("std::cmp::PartialEq", "eq"), ("std::hash::Hash", "hash")):
            fs = [fn for pth, fn in ctx.gecs.fns.items() if pth == "<entity::%s<A> as %s>::%s" % (typed, tr, m)]
            if not fs:
                R.anchor_missing("%s for %s<A>" % (tr, typed))
                continue
            ps = ctx.paths(fs[0])
            ok = False
            for p in ps or ():
                for x in p.effects:
                    if x[0] == "call" and cname(x[2]).endswith(m):
                        a0 = N(x[3][0])
                        if a0 in (("ref", ("field", ("deref", SELF), "inner")), sf("inner")):
                            ok = True
            if not ok and m == "eq":
                # ... or compares every field of .inner itself (e.g. as tuples): the same relation
                inner_cmp = set()
                for p in ps or ():
                    if p.end != "return" or N(p.ret) == ("const", False):
                        continue
                    for v_ in [N(c[0]) for c in p.conds] + [N(p.ret)]:
                        for st in subterms(v_):
                            if st[0] in ("load", "ref"):
                                L = st[1]
                                chain = []
                                while L[0] == "field":
                                    chain.append(L[2])
                                    L = L[1]
                                if L == ("deref", SELF) and len(chain) >= 2 and chain[-1] == "inner":
                                    inner_cmp.add(chain[-2])
                ok = bool(allf) and inner_cmp == allf
            R.check(ok, "C14-R6", "%s::%s|delegates" % (typed, m), "%s on the typed handle is %s on .inner (or compares every field of .inner)" % (m, m), "%s::%s neither delegates to the inner dynamic handle nor compares all of its fields" % (typed, m), where_of(fs[0]), fn=fs[0].key)


def rule_id_bits_inert(ctx, R):
    """C03-R5: no storage function looks at the archetype id bits of a key."""
    n = 0
    for S in ctx.storages():
        for (label, f, ps, root) in storage_units(ctx, S):
            bad = [e for p in ps or () for e in p.effects if e[0] == "call" and cname(e[2]).endswith("::archetype_id")]
            n += 1
            R.check(not bad, "C03-R5", "%s::%s|no-archetype_id" % (S.name, label), "storage code never reads the id bits", "%s calls archetype_id(): id bits must never influence storage access" % label, where_of(f), fn=f.key)


def rule_version_opaque(ctx, R):
    """C03-R3 (generations are compared, never indexed): SlotVersion/ArchetypeVersion values flow only into eq/ne, copies,
    struct fields, get(), next(); `get()` results flow only into raw(), hash, fmt, and next's arithmetic."""
    allowed_get_callers = ("entity::EntityAny::raw", "Hash>::hash", "fmt", "version::SlotVersion::next", "version::ArchetypeVersion::next")
    for path, fn in sorted(ctx.gecs.fns.items()):
        for b in fn.blocks:
            t = b["t"]
            if t["k"] == "call" and not t["f"].get("indirect") and t["f"]["path"] in ("version::SlotVersion::get", "version::ArchetypeVersion::get"):
                ok = any(a in path for a in allowed_get_callers)
                R.check(ok, "C03-R3", "version-get-caller|%s" % fn.short(), "numeric generation only used by raw/hash/fmt/next", "%s reads a generation as a number; generations may only be compared" % path, where_of(fn, t["s"]), fn=fn.key)
