"""E4: compile-time witnesses. rustc is the decider: a compile-fail witness must fail with
the stated error code (or macro message) with its primary span on the marked line; its
twin (marked line deleted or replaced by the stated sound alternative) must compile.
Nothing of gecs is executed; compiling runs the proc macro, which is the build of the
program under analysis."""
import concurrent.futures
import fcntl
import json
import os
import re
import shutil
import subprocess
import tempfile

VERIF = os.path.dirname(os.path.dirname(os.path.dirname(os.path.abspath(__file__))))
WIT = os.path.join(VERIF, "witness")
_base = {}


class WitnessError(Exception):
    pass


def base_build(repo, features=()):
    """Build gecs + gecs_macros from `repo` (rlib / proc-macro dylib) and return (rlib path, deps dir)."""
    key = (os.path.abspath(repo), tuple(features))
    if key in _base:
        return _base[key]
    src = WIT
    if os.path.abspath(repo) != "/repo":
        dst = os.path.join(os.path.dirname(os.path.abspath(repo)), "witness-" + os.path.basename(os.path.abspath(repo)))
        if os.path.exists(dst):
            shutil.rmtree(dst)
        shutil.copytree(src, dst, ignore=shutil.ignore_patterns("target", "Cargo.lock"))
        p = os.path.join(dst, "Cargo.toml")
        txt = open(p).read().replace('path = "/repo"', 'path = "%s"' % os.path.abspath(repo))
        open(p, "w").write(txt)
        src = dst
    lock = os.path.join(repo, "Cargo.lock")
    if os.path.exists(lock):
        shutil.copyfile(lock, os.path.join(src, "Cargo.lock"))
    tgt = os.path.join(VERIF, ".build", "tgt-witness" + ("-" + "-".join(features) if features else ""))
    os.makedirs(tgt, exist_ok=True)
    lockf = open(os.path.join(VERIF, ".build", "lock-witness"), "w")
    fcntl.flock(lockf, fcntl.LOCK_EX)
    try:
        deps = os.path.join(tgt, "debug", "deps")
        if os.path.isdir(deps):
            for d in os.listdir(deps):
                if d.startswith(("gecs-", "libgecs-", "witness_base-", "libwitness_base-", "libgecs_macros-", "gecs_macros-")):
                    try:
                        os.remove(os.path.join(deps, d))
                    except OSError:
                        pass
        fp = os.path.join(tgt, "debug", ".fingerprint")
        if os.path.isdir(fp):
            for d in os.listdir(fp):
                if d.startswith(("gecs-", "gecs_macros-", "witness_base-")):
                    shutil.rmtree(os.path.join(fp, d), ignore_errors=True)
        env = dict(os.environ, CARGO_TARGET_DIR=tgt, CARGO_NET_OFFLINE="true", CARGO_INCREMENTAL="0", RUSTFLAGS="-Awarnings")
        cmd = ["cargo", "+nightly", "build", "--offline", "--lib", "--message-format=json"]
        if features:
            cmd += ["--features", ",".join(features)]
        r = subprocess.run(cmd, cwd=src, env=env, capture_output=True, text=True)
        if r.returncode != 0:
            raise WitnessError("building gecs for the witnesses failed:\n" + r.stderr[-3000:])
        rlib = None
        for line in r.stdout.splitlines():
            try:
                m = json.loads(line)
            except ValueError:
                continue
            if m.get("reason") == "compiler-artifact" and m.get("target", {}).get("name") == "gecs":
                for f in m.get("filenames", []):
                    if f.endswith(".rlib"):
                        rlib = f
        if rlib is None:
            raise WitnessError("gecs rlib not found in cargo output")
        _base[key] = (rlib, deps)
        if os.path.abspath(repo) != "/repo":
            shutil.rmtree(src, ignore_errors=True)
        return _base[key]
    finally:
        fcntl.flock(lockf, fcntl.LOCK_UN)
        lockf.close()


def compile_file(path, rlib, deps, cfgs=()):
    out = tempfile.mkdtemp(prefix="wit-", dir=os.path.join(VERIF, ".build"))
    try:
        cmd = ["rustc", "+nightly", "--edition", "2021", "--crate-type", "lib", "--emit=metadata", "--error-format=json", "-Awarnings",
               "-L", "dependency=" + deps, "--extern", "gecs=" + rlib, "--out-dir", out, "--crate-name", "w", path]
        for c in cfgs:
            cmd += ["--cfg", c]
        r = subprocess.run(cmd, capture_output=True, text=True)
        diags = []
        for line in r.stderr.splitlines():
            try:
                d = json.loads(line)
            except ValueError:
                continue
            if d.get("level") == "error":
                prim = [s for s in d.get("spans", []) if s.get("is_primary")]
                lines = []
                for s in prim:
                    # walk to the outermost expansion call site in the witness file itself
                    cur = s
                    while cur is not None:
                        if cur.get("file_name", "").endswith(os.path.basename(path)):
                            lines.append(cur["line_start"])
                        cur = (cur.get("expansion") or {}).get("span")
                diags.append({"code": (d.get("code") or {}).get("code"), "message": d.get("message", ""), "lines": lines})
        return r.returncode, diags
    finally:
        shutil.rmtree(out, ignore_errors=True)


def parse_witness(path):
    src = open(path).read().split("\n")
    meta = {"code": None, "message": None, "cfgs": []}
    marked = None
    twin = None
    for i, l in enumerate(src):
        m = re.match(r"^//@ (\w+): (.*)$", l)
        if m:
            if m.group(1) == "cfg":
                meta["cfgs"].append(m.group(2).strip())
            else:
                meta[m.group(1)] = m.group(2).strip()
        if "//~ ERROR" in l:
            marked = i
        m = re.match(r"^\s*//~\^ TWIN (.*)$", l)
        if m:
            twin = m.group(1)
    return src, meta, marked, twin


def run_compile_fail(repo, tier, R, rule="C18-R5", directory="cf"):
    try:
        rlib, deps = base_build(repo)
    except WitnessError as e:
        R.fail("BUILD", "witness-base", str(e), None)
        return
    files = sorted(f for f in os.listdir(os.path.join(WIT, directory)) if f.endswith(".rs"))
    work = tempfile.mkdtemp(prefix="witsrc-", dir=os.path.join(VERIF, ".build"))
    try:
        for f in os.listdir(os.path.join(WIT, directory)):
            if f.endswith(".in"):
                shutil.copyfile(os.path.join(WIT, directory, f), os.path.join(work, f))
        jobs = []
        for f in files:
            src, meta, marked, twin = parse_witness(os.path.join(WIT, directory, f))
            name = f[:-3]
            if marked is None:
                R.fail(rule, name + "|format", "witness has no `//~ ERROR` line", os.path.join(WIT, directory, f))
                continue
            wpath = os.path.join(work, f)
            open(wpath, "w").write("\n".join(src))
            tsrc = list(src)
            tsrc[marked] = twin if twin is not None else ""
            tpath = os.path.join(work, name + "__twin.rs")
            open(tpath, "w").write("\n".join(tsrc))
            jobs.append((name, f, meta, marked, wpath, tpath))
        with concurrent.futures.ThreadPoolExecutor(max_workers=16) as ex:
            futs = {}
            for (name, f, meta, marked, wpath, tpath) in jobs:
                futs[(name, "w")] = ex.submit(compile_file, wpath, rlib, deps, meta["cfgs"])
                futs[(name, "t")] = ex.submit(compile_file, tpath, rlib, deps, meta["cfgs"])
            for (name, f, meta, marked, wpath, tpath) in jobs:
                rc, diags = futs[(name, "w")].result()
                trc, tdiags = futs[(name, "t")].result()
                where = os.path.join(WIT, directory, f) + ":%d" % (marked + 1)
                want = meta["code"] or meta["message"]
                hit = None
                for d in diags:
                    if meta["code"] and d["code"] == meta["code"] and (marked + 1) in d["lines"]:
                        hit = d
                    # a macro diagnostic: any error whose primary span is on the marked line counts (the twin, which differs
                    # only in that line, compiles); the wording is recorded, not demanded
                    if meta["message"] and (marked + 1) in d["lines"]:
                        hit = d
                R.check(rc != 0 and hit is not None, rule, name + "|rejected", "rejected with %s on the marked line: %s" % (want, (hit or {}).get("message", "")[:100]),
                        "the unsound client program %s is %s; expected error %s with its primary span on the marked line %d. Diagnostics: %s" % (
                            f, "ACCEPTED by the compiler" if rc == 0 else "rejected differently", want, marked + 1, [(d["code"], d["message"][:80], d["lines"]) for d in diags][:4]), where)
                R.check(trc == 0, rule, name + "|twin-compiles", "the sound twin compiles",
                        "the twin of %s (marked line %s) does not compile, so the witness proves nothing: %s" % (f, "replaced" if "TWIN" in open(os.path.join(WIT, directory, f)).read() else "deleted", [(d["code"], d["message"][:100]) for d in tdiags][:3]), where)
    finally:
        shutil.rmtree(work, ignore_errors=True)


def rule_compile_fail(repo, tier, R):
    run_compile_fail(repo, tier, R, "C18-R5", "cf")
