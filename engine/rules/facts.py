"""Loading and indexing of mirfacts JSON (E1 output)."""
import json
import os
import re


class Fn:
    __slots__ = ("d", "path", "key", "blocks", "locals", "argc", "krate", "kind", "_cfg", "table")

    def __init__(self, d, table=None):
        self.d = d
        self.path = d["path"]
        self.key = d.get("key", d["path"])
        self.blocks = d["blocks"]
        self.locals = d["locals"]
        self.argc = d["argc"]
        self.krate = d["krate"]
        self.kind = d["kind"]
        self._cfg = None
        self.table = table

    @property
    def file(self):
        return self.d["span"]["f"]

    @property
    def line(self):
        return self.d["span"]["l"]

    def local_name(self, i):
        return self.locals[i]["n"]

    def local_ty(self, i):
        return self.locals[i]["ty"]

    def sig(self):
        return self.d.get("sig")

    def short(self):
        return short_path(self.path)

    def __repr__(self):
        return "<Fn %s>" % self.key


_GEN = re.compile(r"::<[^<>]*(?:<[^<>]*(?:<[^<>]*>[^<>]*)*>[^<>]*)*>")


def short_path(p):
    """`archetype::storage::Storage3::<A, T0, T1, T2>::push` -> `Storage3::push`."""
    q = strip_generics(p)
    parts = q.split("::")
    return "::".join(parts[-2:]) if len(parts) >= 2 else q


def strip_generics(p):
    prev = None
    while prev != p:
        prev = p
        p = _GEN.sub("", p)
    return p


class Crate:
    """Generic (polymorphic) facts of one crate."""

    def __init__(self, path):
        with open(path) as f:
            self.d = json.load(f)
        self.name = self.d["crate"]
        self.features = self.d.get("features", [])
        self.debug_assertions = self.d.get("debug_assertions")
        self.fns = {}
        for fd in self.d.get("fns", []):
            fn = Fn(fd, self)
            self.fns[fn.path] = fn
        self.adts = self.d.get("adts", {})
        self.impls = self.d.get("impls", [])
        self.consts = self.d.get("consts", {})
        self.mono = None
        if "mono" in self.d:
            self.mono = Mono(self.d["mono"])

    def lookup(self, callee):
        """Find the Fn for a call's callee descriptor (generic table: by def path)."""
        if callee is None or callee.get("indirect"):
            return None
        r = callee.get("resolved")
        if isinstance(r, dict) and r.get("kind") == "item":
            f = self.fns.get(r["path"])
            if f is not None:
                return f
        if callee.get("trait"):
            return None
        return self.fns.get(callee["path"])

    def find(self, suffix_regex):
        rx = re.compile(suffix_regex)
        return [f for p, f in sorted(self.fns.items()) if rx.search(p)]


class Mono:
    """Monomorphic instances reached from a specimen crate."""

    def __init__(self, d):
        self.roots = d["roots"]
        self.external = d["external"]
        self.fns = {}
        for fd in d["instances"]:
            fn = Fn(fd, self)
            self.fns[fn.key] = fn

    def lookup(self, callee):
        if callee is None or callee.get("indirect"):
            return None
        r = callee.get("resolved")
        if isinstance(r, dict):
            return self.fns.get(r["key"])
        return None

    def find(self, regex):
        rx = re.compile(regex)
        return [f for k, f in sorted(self.fns.items()) if rx.search(k)]


class MultiTable:
    """Lookup across several generic crates (e.g. gecs + gecs_macros)."""

    def __init__(self, crates):
        self.crates = crates
        self.fns = {}
        for c in crates:
            self.fns.update(c.fns)

    def lookup(self, callee):
        for c in self.crates:
            f = c.lookup(callee)
            if f is not None:
                return f
        return None


def load_config(facts_dir):
    out = {}
    for name in ("gecs", "gecs_macros", "specimen"):
        p = os.path.join(facts_dir, name + ".json")
        if not os.path.exists(p):
            if name == "specimen" and os.path.exists(os.path.join(facts_dir, "specimen.error")):
                out[name] = None
                continue
            raise FileNotFoundError("fact file missing: " + p)
        out[name] = Crate(p)
    return out
