"""Rule framework: contexts, reports, role discovery."""
import hashlib
import json
import os
import re
import time

from . import facts as factsmod
from .sym import Executor, TooManyPaths, show, show_loc
from .norm import N, NL, cname


class Violation:
    def __init__(self, rule, key, detail, where=None, config=None):
        self.rule = rule
        self.key = key
        self.detail = detail
        self.where = where
        self.config = config

    def ident(self):
        return "%s|%s" % (self.rule, self.key)


class Report:
    def __init__(self, prop):
        self.prop = prop
        self.items = []  # (rule, key, ok, detail, config)
        self.violations = []
        self.notes = []
        self.samples = {}
        self.counts = {}
        self.nontrivial = set()
        self.functions = set()
        self.config = None
        self.okkeys = set()

    def ok(self, rule, key, detail=None, nontrivial=True, fn=None):
        self.counts[rule] = self.counts.get(rule, 0) + 1
        self.okkeys.add((rule, key))
        if nontrivial:
            self.nontrivial.add((rule, key))
        if fn is not None:
            self.functions.add(fn)
        if detail is not None and rule not in self.samples:
            self.samples[rule] = {"rule": rule, "instance": key, "config": self.config, "judged": detail}

    def fail(self, rule, key, detail, where=None, fn=None):
        self.counts[rule] = self.counts.get(rule, 0) + 1
        if fn is not None:
            self.functions.add(fn)
        self.violations.append(Violation(rule, key, detail, where, self.config))

    def check(self, cond, rule, key, detail_ok=None, detail_fail=None, where=None, fn=None):
        if cond:
            self.ok(rule, key, detail_ok, fn=fn)
        else:
            self.fail(rule, key, detail_fail or detail_ok or "rule not satisfied", where, fn=fn)
        return cond

    def floor(self, rule, minimum):
        n = self.counts.get(rule, 0)
        if n < minimum:
            self.violations.append(
                Violation("FLOOR", "%s" % rule, "rule %s judged %d instances, floor is %d (a rule that matches too few sites passes vacuously)" % (rule, n, minimum), None, self.config)
            )

    def anchor_missing(self, what):
        self.violations.append(Violation("ANCHOR", what, "anchor missing: %s (fail closed)" % what, None, self.config))

    def note(self, text):
        if text not in self.notes:
            self.notes.append(text)


_KNOWN = [False, None]


def load_known_fns():
    """family names of the functions that existed when the rules were written (tables/known_fns.json): the rules may
    address these by name, so they stay calls; a branching helper that is not among them is inlined path by path"""
    if _KNOWN[0]:
        return _KNOWN[1]
    _KNOWN[0] = True
    p = os.path.join(os.path.dirname(os.path.dirname(os.path.dirname(os.path.abspath(__file__)))), "tables", "known_fns.json")
    try:
        with open(p) as f:
            _KNOWN[1] = set(json.load(f)["fns"])
    except Exception:
        _KNOWN[1] = None
    return _KNOWN[1]


def where_of(fn, span=None):
    if span:
        return "%s:%s (%s)" % (span["f"], span["l"], fn.short() if fn is not None else "")
    if fn is None:
        return None
    return "%s:%s (%s)" % (fn.file, fn.line, fn.short())


class Ctx:
    """Facts of one configuration + cached path summaries."""

    def __init__(self, facts_dir, label):
        self.label = label
        self.dir = facts_dir
        cr = factsmod.load_config(facts_dir)
        self.gecs = cr["gecs"]
        self.macros = cr["gecs_macros"]
        self.spec = cr["specimen"]
        self.spec_error = None
        if self.spec is None:
            self.spec_error = open(os.path.join(facts_dir, "specimen.error")).read()
        self.features = self.gecs.features
        self.debug = bool(self.gecs.debug_assertions)
        self.ex = Executor(self.gecs, debug="skip")
        self.ex_keep = Executor(self.gecs, debug="keep")
        known = load_known_fns()
        if known is not None:
            self.ex.known_fns = known
            self.ex_keep.known_fns = known
        self.mex = Executor(self.spec.mono, debug="skip") if (self.spec is not None and self.spec.mono) else None
        self.macex = Executor(self.macros, debug="skip")
        self.specex = Executor(self.spec, debug="skip") if self.spec is not None else None
        self._paths = {}
        self._storages = None

    def has(self, feat):
        return feat in self.features

    def paths(self, fn, ex=None):
        ex = ex or self.ex
        k = (id(ex), fn.key)
        if k not in self._paths:
            try:
                self._paths[k] = ex.run(fn)
            except TooManyPaths:
                self._paths[k] = None
            except RecursionError:
                self._paths[k] = None
        return self._paths[k]

    # ------------------------------------------------------------ storage discovery
    def storages(self):
        """Storage ADTs found by role: a struct with a field of type DataPtr<Slot>."""
        if self._storages is not None:
            return self._storages
        out = []
        for path, adt in sorted(self.gecs.adts.items()):
            if adt["kind"] != "Struct":
                continue
            fields = adt["variants"][0]["fields"]
            tys = {f["n"]: f["ty"] for f in fields}
            if not any(t.endswith("DataPtr<archetype::slot::Slot>") for t in tys.values()):
                continue
            st = Storage(self, path, adt, tys)
            out.append(st)
        out.sort(key=lambda s: s.n)
        self._storages = out
        return out


class Storage:
    def __init__(self, ctx, path, adt, tys):
        self.ctx = ctx
        self.path = path
        self.name = path.split("::")[-1]
        self.tys = tys
        self.columns = [n for n, t in tys.items() if t.startswith("std::cell::RefCell<archetype::storage::DataPtr<")]
        self.n = len(self.columns)
        self.slots = [n for n, t in tys.items() if t.endswith("DataPtr<archetype::slot::Slot>")][0]
        ents = [n for n, t in tys.items() if t.startswith("archetype::storage::DataPtr<entity::Entity<")]
        self.entities = ents[0] if ents else None
        self.fields = list(tys)
        self.fns = {}
        pref = path + "::<"
        for p, f in ctx.gecs.fns.items():
            d = f.d
            if d.get("impl_self", "").startswith(path + "<") and f.kind == "AssocFn":
                nm = p.split("::")[-1]
                if d.get("impl_trait"):
                    targs = d.get("impl_trait_args", [])
                    k = "%s<%s>::%s" % (d["impl_trait"].split("::")[-1], ",".join(factsmod.strip_generics(a).split("::")[-1] for a in targs[1:]), nm)
                else:
                    k = nm
                self.fns[k] = f
        # closures belonging to those fns
        self.closures = {}
        for p, f in ctx.gecs.fns.items():
            if f.kind == "Closure" and f.d.get("parent") in {x.path for x in self.fns.values()}:
                self.closures[p] = f

    def all_fns(self):
        return list(self.fns.values()) + list(self.closures.values())

    def by_role(self, pred):
        out = []
        for k, f in sorted(self.fns.items()):
            ps = self.ctx.paths(f)
            if ps is None:
                continue
            if pred(f, ps):
                out.append(f)
        return out


def depth0_calls(paths, name=None, maxdepth=0):
    out = []
    for p in paths:
        for e in p.effects:
            if e[0] == "call" and e[4] <= maxdepth:
                if name is None or cname(e[2]) == name or cname(e[2]).endswith("::" + name):
                    out.append((p, e))
    return out


def calls_named(path, *names, maxdepth=99):
    out = []
    for e in path.effects:
        if e[0] == "call" and e[4] <= maxdepth:
            cn = cname(e[2])
            for n in names:
                if cn == n or cn.endswith("::" + n):
                    out.append(e)
                    break
    return out


def tree_hash(paths):
    h = hashlib.sha256()
    for root in paths:
        if os.path.isfile(root):
            h.update(root.encode())
            with open(root, "rb") as f:
                h.update(f.read())
            continue
        for dp, dn, fn in sorted(os.walk(root)):
            dn[:] = sorted(d for d in dn if d not in ("target", ".git", ".build", ".cache", "__pycache__"))
            for f in sorted(fn):
                p = os.path.join(dp, f)
                h.update(p.encode())
                try:
                    with open(p, "rb") as fh:
                        h.update(fh.read())
                except OSError:
                    pass
    return h.hexdigest()[:20]
