"""Normal forms and matching helpers for symbolic values produced by sym.py."""
from .facts import strip_generics

OVF = {"AddWithOverflow": "Add", "SubWithOverflow": "Sub", "MulWithOverflow": "Mul"}
UNCHECKED = {"AddUnchecked": "Add", "SubUnchecked": "Sub", "MulUnchecked": "Mul", "ShlUnchecked": "Shl", "ShrUnchecked": "Shr"}

# calls that return (a view of) their single argument unchanged; closed table, std only
IDENTITY_CALLS = (
    "<T as std::convert::Into<U>>::into",
    "std::convert::Into::into",
    "<T as std::convert::From<T>>::from",
    "std::convert::From::from",
    "std::convert::num::<impl std::convert::From<u8> for u32>::from",
    "std::convert::num::<impl std::convert::From<u32> for u64>::from",
    "std::convert::num::<impl std::convert::From<u8> for usize>::from",
    "std::convert::num::<impl std::convert::From<u16> for usize>::from",
    "std::clone::Clone::clone",  # only applied by rules that say so (see N(clone=True))
)

NEG = {"Lt": "Ge", "Ge": "Lt", "Le": "Gt", "Gt": "Le", "Eq": "Ne", "Ne": "Eq"}
SWAP = {"Lt": "Gt", "Gt": "Lt", "Le": "Ge", "Ge": "Le", "Eq": "Eq", "Ne": "Ne"}


def cname(path):
    """canonical short callee name: last two segments without generics."""
    q = strip_generics(path)
    parts = q.split("::")
    return "::".join(parts[-2:])


def N(V, clone=False, keep=False):
    """Structural normal form: call ids removed, overflow-checked arithmetic and integer /
    pointer casts made transparent, identity conversions removed, snapshots of references
    replaced by the referenced value."""
    if not isinstance(V, tuple) or not V:
        return V
    k = V[0]
    if k == "const":
        return ("const", V[1])
    if k == "call":
        path = V[1]
        args = tuple(N(a, clone, keep) for a in V[2])
        cn = cname(path)
        if len(args) == 1 and (path in IDENTITY_CALLS[:-1] or cn in ("Into::into", "From::from") or cn.endswith("Into<U>>::into")):
            return args[0]
        if clone and len(args) == 1 and (cn == "Clone::clone" or cn.endswith("Clone>::clone")):
            return args[0]
        if cn in ("Result::unwrap",) and len(args) == 1 and args[0][0] == "call" and cname(args[0][1]).endswith("try_into"):
            return args[0][2][0]
        return ("call", path, args)
    if k == "refv":
        return N(V[1], clone, keep)
    if k == "ref":
        return ("ref", NL(V[1], clone, keep))
    if k == "load":
        return ("load", NL(V[1], clone, keep), V[2])
    if k == "bin":
        op = V[1]
        op = UNCHECKED.get(op, op)
        return ("bin", op, N(V[2], clone, keep), N(V[3], clone, keep))
    if k == "un":
        return ("un", V[1], N(V[2], clone, keep))
    if k == "cast":
        if (V[1] in ("IntToInt", "PtrToPtr") or V[1].startswith("PointerCoercion")) and not (keep and V[1] == "IntToInt"):
            return N(V[2], clone, keep)
        return ("cast", V[1], N(V[2], clone, keep), V[3])
    if k == "vfield":
        inner = N(V[1], clone, keep)
        if inner[0] == "bin" and inner[1] in OVF and V[2] == "0":
            return ("bin", OVF[inner[1]], inner[2], inner[3])
        if inner[0] == "agg":
            for (fname, fv) in inner[4]:
                if fname == V[2]:
                    return fv
        return ("vfield", inner, V[2])
    if k == "vdown":
        return ("vdown", N(V[1], clone, keep), V[2])
    if k == "agg":
        return ("agg", V[1], V[2], V[3], tuple((f, N(v, clone, keep)) for f, v in V[4])) + tuple(V[5:])
    if k == "discr":
        return ("discr", N(V[1], clone, keep))
    if k == "loopvar":
        return ("loopvar", V[1], V[2], N(V[3], clone, keep) if V[3] else None)
    return V


def NL(L, clone=False, keep=False):
    k = L[0]
    if k == "deref":
        return ("deref", N(L[1], clone, keep))
    if k in ("field", "downcast"):
        return (k, NL(L[1], clone, keep), L[2])
    if k == "index":
        return ("index", NL(L[1], clone, keep), N(L[2], clone, keep))
    if k == "cindex":
        return ("cindex", NL(L[1], clone, keep), L[2], L[3])
    return L


def is_call(V, *names):
    """V is a call whose canonical name ends with one of names."""
    if not isinstance(V, tuple) or not V or V[0] != "call":
        return False
    cn = cname(V[1])
    full = strip_generics(V[1])
    for n in names:
        if cn == n or cn.endswith("::" + n) or full.endswith(n):
            return True
    return False


def subterms(V):
    """All sub-values (pre-order), descending through locations too."""
    stack = [V]
    while stack:
        x = stack.pop()
        if not isinstance(x, tuple) or not x:
            continue
        yield x
        k = x[0]
        if k == "call":
            stack.extend(x[2])
        elif k in ("bin",):
            stack.extend((x[2], x[3]))
        elif k in ("un", "cast"):
            stack.append(x[2])
        elif k in ("refv", "vfield", "vdown", "discr"):
            stack.append(x[1])
        elif k == "agg":
            stack.extend(v for _, v in x[4])
        elif k in ("load", "ref"):
            stack.extend(loc_values(x[1]))
        elif k == "loopvar" and x[3]:
            stack.append(x[3])


def loc_values(L):
    out = []
    cur = L
    while cur is not None and isinstance(cur, tuple):
        k = cur[0]
        if k == "deref":
            out.append(cur[1])
            cur = None
        elif k in ("field", "downcast", "cindex"):
            cur = cur[1]
        elif k == "index":
            out.append(cur[2])
            cur = cur[1]
        else:
            cur = None
    return out


def contains(V, pred):
    for x in subterms(V):
        if pred(x):
            return True
    return False


def self_field(name, arg=1, epoch=0):
    return ("load", ("field", ("deref", ("arg", arg)), name), epoch)


def self_field_loc(name, arg=1):
    return ("field", ("deref", ("arg", arg)), name)


def is_self_field_load(V, name=None, arg=1):
    if V[0] != "load":
        return False
    L = V[1]
    if L[0] != "field" or L[1] != ("deref", ("arg", arg)):
        return False
    return name is None or L[2] == name


def loc_root_field(L, arg=1):
    """If location L lies inside `(*arg).<field>...` return that field name."""
    cur = L
    last = None
    while cur is not None:
        if cur[0] == "field" and cur[1] == ("deref", ("arg", arg)):
            return cur[2]
        if cur[0] in ("field", "downcast", "index", "cindex"):
            cur = cur[1]
        else:
            return None
    return last


# ----------------------------------------------------------------------------------
# atoms / conditions
# ----------------------------------------------------------------------------------
def atom(cond, keep=False):
    """Normalise a path condition entry to (atom_value, truth) where the atom is an
    un-negated, canonically ordered comparison where possible."""
    V, vals, kind = cond[0], cond[1], cond[2]
    V = N(V, False, keep)
    # truth of V as a boolean / discriminant test
    if vals and vals[0] == "not":
        excl = vals[1:]
        if excl == (0,):
            truth = True
        else:
            return (("switch", V, vals), True)
    else:
        if vals == (0,):
            truth = False
        elif vals == (1,) and looks_bool(V):
            truth = True
        else:
            return (("switch", V, vals), True)
    return canon_bool(V, truth)


def looks_bool(V):
    if V[0] == "bin" and V[1] in NEG:
        return True
    if V[0] == "un" and V[1] == "Not":
        return True
    if V[0] == "call":
        return True
    if V[0] == "bin" and V[1] in ("BitAnd", "BitOr", "BitXor"):
        return True
    return False


def canon_bool(V, truth):
    while V[0] == "un" and V[1] == "Not":
        V = V[2]
        truth = not truth
    if V[0] == "bin" and V[1] in NEG:
        op, a, b = V[1], V[2], V[3]
        # (x == false) / (x == true)
        if op in ("Eq", "Ne") and b[0] == "const" and type(b[1]) is bool:
            inner_truth = (b[1] is True) == (op == "Eq")
            return canon_bool(a, truth == inner_truth)
        # canonical: Lt and Eq only, so that `a < b`, `b > a`, `!(a >= b)` and `!(b <= a)` are one atom
        if op == "Ne":
            op, truth = "Eq", not truth
        elif op == "Ge":                      # a >= b  ==  !(a < b)
            op, truth = "Lt", not truth
        elif op == "Gt":                      # a > b   ==  b < a
            op, a, b = "Lt", b, a
        elif op == "Le":                      # a <= b  ==  !(b < a)
            op, a, b, truth = "Lt", b, a, not truth
        if op == "Eq" and a[0] == "const" and b[0] != "const":
            a, b = b, a
        # x < 1 on the unsigned counters of this crate is x == 0 (and 0 < x is x != 0)
        if op == "Lt" and b == ("const", 1) and a[0] != "const":
            op, b = "Eq", ("const", 0)
        elif op == "Lt" and a == ("const", 0) and b[0] != "const":
            op, a, b, truth = "Eq", b, ("const", 0), not truth
        return (("cmp", op, a, b), truth)
    if V[0] == "call":
        cn = cname(V[1])
        if cn.endswith("PartialEq::ne") or cn.endswith("::ne"):
            return (("cmp", "Eq", V[2][0], V[2][1]), not truth)
        if cn.endswith("PartialEq::eq") or cn.endswith("::eq"):
            return (("cmp", "Eq", V[2][0], V[2][1]), truth)
    return (("bool", V), truth)


def path_atoms(path, kinds=("branch",)):
    out = []
    for c in path.conds:
        if c[2] in kinds:
            out.append(atom(c))
    return out


def show_atom(a):
    from .sym import show
    (at, truth) = a
    neg = "" if truth else "!"
    if at[0] == "cmp":
        return "%s%s(%s, %s)" % (neg, at[1], show(at[2]), show(at[3]))
    if at[0] == "bool":
        return "%s%s" % (neg, show(at[1]))
    if at[0] == "switch":
        return "%s in %s" % (show(at[1]), at[2])
    return str(a)
