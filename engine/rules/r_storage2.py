"""More rules over the generic MIR of gecs' storage: guards of push / grow / constructor,
dropper, cloner, iterators, who-may-write / who-may-call, RefCell discipline."""
from .core import where_of, cname
from .norm import N, NL, atom, path_atoms, show_atom, is_call, subterms, contains, canon_bool
from .sym import show
from .r_storage import (SELF, MAXCAP, sf, floc, roles, own_calls, prim_name, receiver_array, receiver_array_any, strip_epochs,
                        closure_applications, storage_units, describe_atoms, is_some, is_none, slice_parts, array_of, same_index,
                        untrim, reference_eval, return_paths, current_value)

LT_LEN_CAP = (("cmp", "Lt", sf("len"), sf("capacity")), True)
GE_LEN_CAP = (("cmp", "Lt", sf("len"), sf("capacity")), False)


def fname(f):
    return f.path.split("::")[-1]


def branch_atoms(p):
    return path_atoms(p, kinds=("branch",))


# ----------------------------------------------------------------------------------
# C12-R2 / C04-R4: push, push_within_capacity
# ----------------------------------------------------------------------------------
def rule_push_guards(ctx, R):
    for S in ctx.storages():
        rl = roles(ctx, S)
        creators = [f for f in rl["creator"] if own_calls(f, ctx.paths(f), "DataPtr::write")]
        growers = rl["grower"]
        if len(creators) != 1 or len(growers) != 1:
            continue  # reported by rule_creator / rule_grower
        creator, grower = creators[0], growers[0]
        # callers of the creator
        callers = []
        for k, f in sorted(S.fns.items()):
            if f is creator:
                continue
            ps = ctx.paths(f)
            if ps is None:
                continue
            if any(e[0] == "call" and e[6] == f.key and e[2] == creator.path for p in ps for e in p.effects):
                callers.append(f)
        R.check(len(callers) >= 2, "X-WMC", "%s|creator-callers" % S.name, "creator is called from %s" % [fname(f) for f in callers],
                "expected at least the two creation entry points to call the creator, found %s" % [fname(f) for f in callers], None)
        for f in callers:
            key = "%s::%s" % (S.name, fname(f))
            ps = ctx.paths(f)
            returns_result = (f.sig() or {}).get("output", "").startswith("std::result::Result<")
            for pi, p in enumerate(ps):
                atoms = branch_atoms(p)
                ccalls = [e for e in p.effects if e[0] == "call" and e[6] == f.key and e[2] == creator.path]
                gcalls = [e for e in p.effects if e[0] == "call" and e[6] == f.key and e[2] == grower.path]
                if ccalls:
                    # contract of the unsafe creator: len < capacity, or a successful grow just happened
                    i = p.effects.index(ccalls[0])
                    pre = [atom(c) for c in p.conds if c[2] == "branch" and c[4] <= i]
                    ok_direct = LT_LEN_CAP in pre
                    ok_grown = GE_LEN_CAP in pre and bool(gcalls) and any(a[0] == "bool" and is_call(a[1], fname(grower)) and t for (a, t) in pre)
                    R.check(ok_direct or ok_grown, "C12-R2", key + "|creator-contract#%d" % pi, "creator entered under len<capacity or after a successful grow",
                            "the creator is entered under %s; its contract needs Lt(len, capacity), or Ge(len, capacity) with grow()==true" % describe_atoms(pre), where_of(f, ccalls[0][5]), fn=f.key)
                    R.check(len(ccalls) == 1, "C04-R4", key + "|creator-once#%d" % pi, "creator called once", "creator called %d times on one path" % len(ccalls), where_of(f), fn=f.key)
                if gcalls:
                    i = p.effects.index(gcalls[0])
                    pre = [atom(c) for c in p.conds if c[2] == "branch" and c[4] <= i]
                    R.check(GE_LEN_CAP in pre, "C12-R2", key + "|grow-iff-full#%d" % pi, "grow only when len>=capacity",
                            "grow() is called under %s; expected only when Ge(len, capacity)" % describe_atoms(pre), where_of(f, gcalls[0][5]), fn=f.key)
                    R.check(not returns_result, "C12-R2", key + "|within-capacity-never-grows", "", "create_within_capacity path calls the grower; it must leave capacity unchanged", where_of(f, gcalls[0][5]), fn=f.key)
                if isinstance(p.end, tuple) and p.end[0] == "diverge":
                    # documented panic: only when full and grow() == false
                    ok = GE_LEN_CAP in atoms and any(a[0] == "bool" and is_call(a[1], fname(grower)) and not t for (a, t) in atoms)
                    R.check(ok, "C12-R2", key + "|capacity-overflow-panic#%d" % pi, "panic iff full and grow()==false",
                            "a panic path exists under %s; the only documented panic is `capacity overflow` when full and grow() returned false" % describe_atoms(atoms), where_of(f), fn=f.key)
                if returns_result and p.end == "return":
                    ret = N(p.ret)
                    if ret[0] == "agg" and ret[3] == "Err":
                        ok = atoms == [GE_LEN_CAP]
                        R.check(ok, "C12-R2", key + "|err-iff-full", "Err iff len>=capacity",
                                "Err is returned under %s; expected exactly Ge(len, capacity)" % describe_atoms(atoms), where_of(f), fn=f.key)
                        okv = ret[4][0][1] == ("arg", 2)
                        R.check(okv, "C04-R4", key + "|err-returns-argument", "refused creation hands back its argument untouched",
                                "Err carries %s; expected the data argument itself" % show(ret[4][0][1]), where_of(f), fn=f.key)
                        others = [e for e in p.effects if e[0] == "call" and e[6] == f.key and not e[7]
                                  and not (cname(e[2]).endswith(("Into::into", "Into<U>>::into", "From::from")) and len(e[3]) == 1 and N(e[3][0]) == ("arg", 2))]
                        R.check(not others, "C04-R4", key + "|err-path-effect-free", "no call on the refusing path",
                                "refusing path calls %s before returning the argument" % [cname(e[2]) for e in others], where_of(f), fn=f.key)
                        stores = [e for e in p.effects if e[0] == "store"]
                        R.check(not stores, "C04-R4", key + "|err-path-no-store", "no store on the refusing path", "refusing path writes state", where_of(f), fn=f.key)
                    elif ret[0] == "agg" and ret[3] == "Ok":
                        R.check(atoms == [LT_LEN_CAP], "C12-R2", key + "|ok-iff-room", "Ok iff len<capacity",
                                "Ok is returned under %s; expected exactly Lt(len, capacity)" % describe_atoms(atoms), where_of(f), fn=f.key)
            if returns_result:
                cst = [e for p in ps for e in p.effects if e[0] == "store" and NL(e[1]) == floc("capacity")]
                R.check(not cst, "C12-R2", key + "|capacity-unchanged", "create_within_capacity never writes capacity", "writes capacity", where_of(f), fn=f.key)


# ----------------------------------------------------------------------------------
# grower: C12-R2 policy, C02-R4, C01-R5
# ----------------------------------------------------------------------------------
def rule_grower(ctx, R):
    for S in ctx.storages():
        gs = roles(ctx, S)["grower"]
        if len(gs) != 1:
            R.fail("C12-R2", "%s|grower-count" % S.name, "expected exactly one grower (fn calling DataPtr::grow), found %s" % [fname(f) for f in gs], None)
            continue
        f = gs[0]
        key = "%s::%s" % (S.name, fname(f))
        ps = ctx.paths(f)
        if ps is None:
            R.fail("SHAPE", key + "|paths", "path enumeration failed", where_of(f), fn=f.key)
            continue
        cap = sf("capacity")
        newcap = ("call", "std::cmp::Ord::min", (("call", "core::num::<impl usize>::saturating_mul", (("call", "core::num::<impl usize>::saturating_add", (cap, ("const", 1))), ("const", 2))), ("const", MAXCAP)))
        for pi, p in enumerate(ps):
            atoms = branch_atoms(p)
            if p.end != "return":
                R.fail("C12-R2", key + "|exit#%d" % pi, "grower has a non-returning path (%s): growth refusal must be `return false`" % (p.end,), where_of(f), fn=f.key)
                continue
            ret = N(p.ret)
            lt = (("cmp", "Lt", cap, ("const", MAXCAP)), True)
            ge = (("cmp", "Lt", cap, ("const", MAXCAP)), False)
            if ret == ("const", False):
                R.check(atoms == [ge], "C12-R2", key + "|refuse-iff-max", "return false iff capacity >= 2^24",
                        "grower returns false under %s; expected exactly Ge(capacity, MAX_DATA_CAPACITY)" % describe_atoms(atoms), where_of(f), fn=f.key)
                st = [e for e in p.effects if e[0] in ("store",) or (e[0] == "call" and prim_name(e) in ("grow", "write", "swap_remove"))]
                R.check(not st, "C10-R2", key + "|refuse-effect-free", "refusing path has no write effect", "refusing path of the grower writes state", where_of(f), fn=f.key)
                continue
            if ret != ("const", True):
                R.fail("C12-R2", key + "|ret#%d" % pi, "grower returns %s; expected a boolean constant per path" % show(ret), where_of(f), fn=f.key)
                continue
            R.check(atoms == [lt], "C12-R2", key + "|grow-iff-below-max", "grow iff capacity < 2^24", "growing path under %s; expected exactly Lt(capacity, MAX)" % describe_atoms(atoms), where_of(f), fn=f.key)
            grows = [e for e in p.effects if e[0] == "call" and prim_name(e) == "grow" and e[6] == f.key]
            arrays = [receiver_array(e[3][0], S) for e in grows]
            want = [S.slots, S.entities] + S.columns
            R.check(sorted(arrays) == sorted(want), "C02-R4", key + "|grow-set", "every array grown once: %d" % len(grows),
                    "grower grows %s; expected exactly one grow of each of %s" % (arrays, want), where_of(f), fn=f.key)
            news = set()
            for e, arr in zip(grows, arrays):
                old, new = N(e[3][1]), N(e[3][2])
                R.check(old == cap, "C02-R4", key + "|grow-old(%s)" % arr, "old extent = self.capacity", "grow of %s passes old capacity %s; expected self.capacity" % (arr, show(old)), where_of(f, e[5]), fn=f.key)
                news.add(strip_epochs(new))
            R.check(len(news) == 1, "C02-R4", key + "|grow-uniform", "all arrays grown to the same new capacity", "arrays are grown to different capacities: %s" % [show(n) for n in news], where_of(f), fn=f.key)
            new = list(news)[0] if news else None
            R.check(new is not None and strip_epochs(new) == strip_epochs(newcap), "C12-R2", key + "|policy", "new capacity = min((capacity+1)*2, 2^24) saturating",
                    "new capacity is %s; expected min(saturating_mul(saturating_add(capacity,1),2), MAX_DATA_CAPACITY)" % (show(new) if new else None), where_of(f), fn=f.key)
            cst = [e for e in p.effects if e[0] == "store" and NL(e[1]) == floc("capacity")]
            okc = len(cst) == 1 and new is not None and strip_epochs(N(cst[0][2])) == new
            R.check(okc, "C12-R2", key + "|capacity-store", "capacity <- new capacity once", "capacity stores: %s" % [show(N(e[2])) for e in cst], where_of(f), fn=f.key)
            if cst and grows:
                last_grow = max(p.effects.index(e) for e in grows)
                R.check(p.effects.index(cst[0]) > last_grow, "C12-R2", key + "|capacity-after-growth", "capacity updated after every array has grown",
                        "capacity is stored before all arrays have been grown", where_of(f, cst[0][4]), fn=f.key)
            for fld in ("len", "version"):
                st = [e for e in p.effects if e[0] == "store" and NL(e[1]) == floc(fld)]
                R.check(not st, "C09-R3", key + "|no-store(%s)" % fld, "grower does not write %s" % fld, "grower writes self.%s" % fld, where_of(f), fn=f.key)
            # free list threading starts at old capacity == len
            pops = [e for e in p.effects if e[0] == "call" and cname(e[2]).endswith("Slot::populate_free_list")]
            okp = False
            if len(pops) == 1:
                start = N(pops[0][3][0])
                sl = N(pops[0][3][1])
                parts = slice_parts(sl)
                okp = same_index(start, sf("len")) and parts is not None and array_of(parts[0], S) == S.slots and new is not None and strip_epochs(parts[1]) == new
                fh = [e for e in p.effects if e[0] == "store" and NL(e[1]) == floc("free_head")]
                okp = okp and len(fh) == 1 and is_call(N(fh[0][2]), "populate_free_list")
            R.check(okp, "C01-R5", key + "|thread-new-tail", "only positions >= old len (== old capacity) are threaded as new free slots",
                    "expected free_head <- populate_free_list(start = self.len, slots[..new capacity]); found %s" % [[show(N(a))[:120] for a in e[3]] for e in pops], where_of(f), fn=f.key)


def rule_populate(ctx, R):
    """C12-R4 / C01-R5: populate_free_list writes only indices >= start."""
    fn = ctx.gecs.fns.get("archetype::slot::Slot::populate_free_list")
    if fn is None:
        R.anchor_missing("archetype::slot::Slot::populate_free_list")
        return
    ps = ctx.paths(fn)
    key = "Slot::populate_free_list"
    if ps is None:
        R.fail("SHAPE", key, "path enumeration failed", where_of(fn), fn=fn.key)
        return
    start_raw = ("vfield", ("arg", 1), "0")
    ln = ("call", "core::slice::<impl [T]>::len", (("arg", 2),))
    end = ("bin", "Sub", ln, ("const", 1))
    rng = ("agg", "adt", "std::ops::Range", "Range", (("start", start_raw), ("end", end)), 0)
    for pi, p in enumerate(ps):
        writes = [e for e in p.effects if e[0] == "call" and cname(e[2]).endswith("MaybeUninit::write")]
        for e in writes:
            tgt = N(e[3][0])
            val = N(e[3][1])
            # tgt = unwrap(get_mut(slots, idx))  /  slots[idx]  /  the element an enumerated iterator over `slots` hands out with idx
            idx = None
            rng_of_idx = None
            if is_call(tgt, "Option::unwrap") and is_call(tgt[2][0], "slice::get_mut") and tgt[2][0][2][0] == ("arg", 2):
                idx = tgt[2][0][2][1]
            elif (is_call(tgt, "get_unchecked_mut") or is_call(tgt, "index_mut") or is_call(tgt, "IndexMut>::index_mut")) and len(tgt[2]) == 2 and tgt[2][0] == ("arg", 2):
                idx = tgt[2][1]
            elif tgt[0] == "ref" and tgt[1][0] == "index" and tgt[1][1] == ("deref", ("arg", 2)):
                idx = tgt[1][2]   # slots[idx] (bounds-checked indexing)
            elif tgt[0] == "vfield" and tgt[2] == "1":
                ci = chain_item(tgt[1])
                if ci is not None and ci[1] and ci[0][2] == ("arg", 2):
                    idx = ("vfield", tgt[1], "0")
            if idx is not None and idx[0] == "vfield" and idx[2] == "0":
                ci = chain_item(idx[1])
                if ci is not None and ci[1] and ci[0][2] == ("arg", 2):
                    rng_of_idx = (ci[0][0], ci[0][1])
            ok = False
            what = None
            if idx is not None:
                if strip_epochs(idx) == strip_epochs(end) or (idx[0] == "vfield" and False):
                    what = "last"
                    ok = val[0] == "agg" and dict(val[4]).get("index") == ("agg", "adt", "archetype::slot::SlotIndex", "SlotIndex", (("0", ("const", 4294967295)),), 0)
                else:
                    # idx = item of Range(start, len-1), or of an iterator chain over `slots` covering the same indices
                    item = loop_item(idx)
                    same_rng = item is not None and strip_epochs(item) == strip_epochs(rng)
                    if not same_rng and rng_of_idx is not None:
                        same_rng = strip_epochs(untrim(rng_of_idx[0])) == strip_epochs(start_raw) and strip_epochs(rng_of_idx[1]) == strip_epochs(end)
                    if same_rng:
                        what = "loop"
                        link = dict(val[4]).get("index") if val[0] == "agg" else None
                        want_next = ("bin", "Add", idx, ("const", 1))
                        ok = link is not None and link[0] == "agg" and link[4][0][1][0] == "bin" and link[4][0][1][1] == "BitOr" and untrim(link[4][0][1][2]) == want_next
            # C10: the `new_usize(idx + 1).unwrap()` in this loop runs inside the grower's commit section; it cannot panic only
            # because the loop stops at len-2 (idx + 1 <= len - 1 < 2^24) -- the exemption in tables/unwind.json rests on this range
            if not ok:
                R.fail("C10-R7", key + "|write(%s)" % (what or "?"), "populate_free_list does not thread exactly start..len-1 (+ end marker at len-1): the successor index idx+1 can reach 2^24 and its unwrap panics in the middle of grow, after the reallocations and before capacity is stored", where_of(fn, e[5]), fn=fn.key)
            else:
                R.ok("C10-R7", key + "|write(%s)" % (what or "?"), "the loop range keeps idx+1 below 2^24: the unwrap inside the grower's commit section cannot panic")
            R.check(ok, "C12-R4", key + "|write(%s)" % (what or "?"), "slot %s threaded correctly" % what,
                    "populate_free_list writes slot[%s] <- %s; expected links idx -> idx+1 for idx in start..len-1 and the end marker at len-1" % (show(idx) if idx else "?", show(val)[:200]), where_of(fn, e[5]), fn=fn.key)
            if val[0] == "agg":
                ver = dict(val[4]).get("version")
                R.check(ver is not None and contains(ver, lambda x: x[0] in ("uneval", "const") and "VERSION_START" in str(x)), "C08-R5", key + "|start-generation(%s)" % what,
                        "never-used positions start at VERSION_START", "new slot gets generation %s; expected the start generation" % show(ver), where_of(fn, e[5]), fn=fn.key)
        if p.end == "return":
            ret = N(p.ret)
            ats = branch_atoms(p)
            if _zero(p, lambda x: strip_epochs(x) == strip_epochs(ln)):
                ok = ret == ("agg", "adt", "archetype::slot::SlotIndex", "SlotIndex", (("0", ("const", 4294967295)),), 0)
                R.check(ok, "C12-R4", key + "|empty", "empty slot array => free list end", "empty case returns %s" % show(ret), where_of(fn), fn=fn.key)
            else:
                ok = ret[0] == "agg" and ret[4][0][1][0] == "bin" and ret[4][0][1][1] == "BitOr" and ret[4][0][1][2] == start_raw
                R.check(ok, "C12-R4", key + "|head", "returns new_free(start)", "returns %s; expected new_free(start)" % show(ret), where_of(fn), fn=fn.key)


def _enum_payload(V):
    """V = payload tuple of Some(next(loopvar(init = into_iter(enumerate(iter(S)))))) -> S (the enumerated slice expr)"""
    if V[0] == "vfield" and V[2] == "0" and V[1][0] == "vdown" and V[1][2] == "Some":
        c = V[1][1]
        if is_call(c, "next") and c[2] and "Enumerate" in c[1]:
            lv = c[2][0]
            if lv[0] == "loopvar" and lv[3] is not None and is_call(lv[3], "into_iter"):
                x = lv[3][2][0]
                if is_call(x, "enumerate") and is_call(x[2][0], "iter"):
                    return x[2][0][2][0]
    return None


def chain_range(it):
    """(start, end, slice) of the indices produced by an iterator expression built from
    S.iter()/iter_mut() [.enumerate()] [.take(n)] [.skip(m)] ...; None if it is anything else"""
    if is_call(it, "enumerate"):
        return chain_range(it[2][0])
    if is_call(it, "iter_mut") or is_call(it, "iter"):
        S_ = it[2][0]
        parts = slice_parts(S_)
        ln = parts[1] if parts is not None else ("call", "core::slice::<impl [T]>::len", (S_,))
        return (("const", 0), ln, S_)
    if is_call(it, "take") and len(it[2]) == 2:
        r = chain_range(it[2][0])
        if r is None:
            return None
        (s_, e_, S_) = r
        n_ = it[2][1]
        # min(e, n): n itself when n is visibly e - k
        if n_[0] == "bin" and n_[1] == "Sub" and strip_epochs(n_[2]) == strip_epochs(e_):
            return (s_, n_, S_)
        return (s_, ("call", "min", (e_, n_)), S_)
    if is_call(it, "skip") and len(it[2]) == 2:
        r = chain_range(it[2][0])
        if r is None:
            return None
        (s_, e_, S_) = r
        m_ = it[2][1]
        return (m_ if s_ == ("const", 0) else ("bin", "Add", s_, m_), e_, S_)
    return None


def chain_item(x):
    """x = the item `Some(next(loopvar(init = into_iter(CHAIN)))).0` of a for loop over an iterator chain -> (CHAIN range, enumerated?)"""
    if x[0] == "vfield" and x[2] == "0" and x[1][0] == "vdown" and x[1][2] == "Some":
        c = x[1][1]
        if is_call(c, "next") and c[2]:
            lv = c[2][0]
            if lv[0] == "loopvar" and lv[3] is not None and is_call(lv[3], "into_iter"):
                it = lv[3][2][0]
                r = chain_range(it)
                if r is not None:
                    return (r, contains(it, lambda t_: is_call(t_, "enumerate")))
    return None


def iter_elem_slice(x):
    """x = element reference yielded by `for e in S.iter()/iter_mut()` -> S"""
    if x[0] == "vfield" and x[2] == "0" and x[1][0] == "vdown" and x[1][2] == "Some":
        c = x[1][1]
        if is_call(c, "next") and c[2]:
            lv = c[2][0]
            if lv[0] == "loopvar" and lv[3] is not None and is_call(lv[3], "into_iter"):
                it = lv[3][2][0]
                if is_call(it, "iter_mut") or is_call(it, "iter"):
                    return it[2][0]
    return None


def index_extent(idx):
    """E such that idx ranges over 0..E on the iterations of the enclosing loop: `for idx in 0..E` or
    `for (idx, _) in slice(ptr, E).iter().enumerate()`; None if idx is anything else"""
    item = loop_item(idx)
    if item is not None and item[0] == "agg" and item[2] == "std::ops::Range":
        d_ = dict(item[4])
        if d_.get("start") == ("const", 0):
            return d_.get("end")
        return None
    if idx[0] == "vfield" and idx[2] == "0":
        sl = _enum_payload(idx[1])
        if sl is not None:
            parts = slice_parts(sl)
            if parts is not None:
                return parts[1]
    return None


def element_source(val, idx):
    """(array pointer expr, extent) when val is (a clone of) cell `idx` of slice(array, extent)"""
    for x in subterms(val):
        if is_call(x, "slice::get_unchecked") and x[2][1] == idx:
            parts = slice_parts(x[2][0])
            if parts is not None:
                return parts
    # the element reference handed out by enumerate() alongside idx
    if idx[0] == "vfield" and idx[2] == "0":
        for x in subterms(val):
            if x[0] == "vfield" and x[2] == "1" and x[1] == idx[1]:
                sl = _enum_payload(x[1])
                if sl is not None:
                    return slice_parts(sl)
    return None


def loop_item(V):
    """payload of Some(next(loopvar(init = into_iter(X)))) -> X"""
    if V[0] == "vfield" and V[2] == "0" and V[1][0] == "vdown" and V[1][2] == "Some":
        c = V[1][1]
        if is_call(c, "next") and c[2]:
            lv = c[2][0]
            if lv[0] == "loopvar" and lv[3] is not None and is_call(lv[3], "into_iter"):
                return lv[3][2][0]
    return None


# ----------------------------------------------------------------------------------
# constructor: C12-R2
# ----------------------------------------------------------------------------------
def rule_ctor(ctx, R):
    for S in ctx.storages():
        cs = [f for f in roles(ctx, S)["ctor"] if (f.sig() or {}).get("inputs") == ["usize"]]
        if len(cs) != 1:
            R.fail("C12-R2", "%s|ctor-count" % S.name, "expected exactly one capacity constructor, found %s" % [fname(f) for f in cs], None)
            continue
        f = cs[0]
        key = "%s::%s" % (S.name, fname(f))
        ps = ctx.paths(f)
        cap = ("arg", 1)
        le = (("cmp", "Lt", ("const", MAXCAP), cap), False)
        gt = (("cmp", "Lt", ("const", MAXCAP), cap), True)
        for pi, p in enumerate(ps or ()):
            atoms = branch_atoms(p)
            if p.end == "return":
                R.check(atoms == [le], "C12-R2", key + "|accept-iff-le-max", "constructs iff n <= 2^24", "constructor succeeds under %s; expected exactly Le(n, MAX)" % describe_atoms(atoms), where_of(f), fn=f.key)
                ret = N(p.ret)
                d = dict(ret[4]) if ret[0] == "agg" else {}
                R.check(d.get("capacity") == cap and d.get("len") == ("const", 0), "C12-R2", key + "|fields", "capacity = n, len = 0",
                        "constructor sets capacity=%s len=%s; expected capacity = argument, len = 0" % (show(d.get("capacity")), show(d.get("len"))), where_of(f), fn=f.key)
                wcs = [e for e in p.effects if e[0] == "call" and prim_name(e) == "with_capacity"]
                ok = len(wcs) == S.n + 2 and all(N(e[3][0]) == cap for e in wcs)
                R.check(ok, "C12-R2", key + "|allocations", "N+2 arrays allocated with n", "allocations: %s; expected %d arrays allocated with the requested capacity" % ([show(N(e[3][0])) for e in wcs], S.n + 2), where_of(f), fn=f.key)
                fh = d.get("free_head")
                okf = fh is not None and is_call(fh, "populate_free_list") and fh[2][0] == ("agg", "adt", "index::TrimmedIndex", "TrimmedIndex", (("0", ("const", 0)),), 0)
                R.check(okf, "C12-R4", key + "|free-list", "all n positions threaded from 0", "free_head is %s; expected populate_free_list(0, all slots)" % show(fh)[:200], where_of(f), fn=f.key)
                v = d.get("version")
                R.check(v is not None and "VERSION_START" in str(v), "C08-R5", key + "|start-version", "archetype generation starts at VERSION_START", "version initialised to %s" % show(v), where_of(f), fn=f.key)
            elif isinstance(p.end, tuple) and p.end[0] == "diverge":
                R.check(atoms == [gt], "C12-R2", key + "|panic-iff-gt-max", "panics iff n > 2^24", "constructor panics under %s; expected exactly Gt(n, MAX)" % describe_atoms(atoms), where_of(f), fn=f.key)
                allocs = [e for e in p.effects if e[0] == "call" and prim_name(e) == "with_capacity"]
                R.check(not allocs, "C10-R2", key + "|panic-before-alloc", "limit panic precedes every allocation", "constructor allocates before the capacity-limit panic", where_of(f), fn=f.key)


# ----------------------------------------------------------------------------------
# dropper: C04-R3
# ----------------------------------------------------------------------------------
def rule_dropper(ctx, R):
    for S in ctx.storages():
        ds = roles(ctx, S)["dropper"]
        if len(ds) != 1:
            R.fail("C04-R3", "%s|dropper-count" % S.name, "expected exactly one Drop impl, found %d" % len(ds), None)
            continue
        f = ds[0]
        key = "%s::drop" % S.name
        ps = ctx.paths(f)
        if ps is None or len(ps) != 1 or ps[0].end != "return":
            R.fail("SHAPE", key + "|single-path", "Drop::drop is expected to be one straight-line path", where_of(f), fn=f.key)
            continue
        p = ps[0]
        drops = [e for e in p.effects if e[0] == "call" and prim_name(e) == "drop_to"]
        deallocs = [e for e in p.effects if e[0] == "call" and prim_name(e) == "dealloc"]
        darr = [receiver_array(e[3][0], S) for e in drops]
        R.check(sorted(darr) == sorted(S.columns), "C04-R3", key + "|drop_to-set", "every column dropped exactly once",
                "drop_to is called on %s; expected exactly once on each column %s" % (darr, S.columns), where_of(f), fn=f.key)
        aarr = [receiver_array(e[3][0], S) for e in deallocs]
        want = [S.slots, S.entities] + S.columns
        R.check(sorted(aarr) == sorted(want), "C04-R3", key + "|dealloc-set", "every array freed exactly once",
                "dealloc is called on %s; expected exactly once on each of %s" % (aarr, want), where_of(f), fn=f.key)
        for e, arr in zip(drops, darr):
            later = [d for d, a2 in zip(deallocs, aarr) if a2 == arr]
            R.check(bool(later) and p.effects.index(e) < p.effects.index(later[0]), "C04-R3", key + "|drop-before-free(%s)" % arr, "cells dropped before the array is freed",
                    "column %s is freed before its cells are dropped" % arr, where_of(f, e[5]), fn=f.key)
    # storage fields have no drop glue of their own: DataPtr has no Drop impl
    dp = ctx.gecs.adts.get("archetype::storage::DataPtr")
    if dp is None:
        R.anchor_missing("archetype::storage::DataPtr")
    else:
        R.check(not dp["has_dtor"], "C04-R3", "DataPtr|no-Drop", "DataPtr has no Drop impl (no implicit second drop)", "DataPtr has a Drop impl: cells could be dropped implicitly a second time", None)
    # DataPtr::drop_to: loop over Range(0,len), one drop_in_place(base+i) per iteration
    fn = ctx.gecs.fns.get("archetype::storage::DataPtr::<T>::drop_to")
    if fn is None:
        R.anchor_missing("archetype::storage::DataPtr::<T>::drop_to")
        return
    ps = ctx.paths(fn)
    rng = ("agg", "adt", "std::ops::Range", "Range", (("start", ("const", 0)), ("end", ("arg", 2))), 0)
    body = [p for p in ps or () if isinstance(p.end, tuple) and p.end[0] == "backedge"]
    ok = len(body) == 1
    if ok:
        dips = [e for e in body[0].effects if e[0] == "call" and cname(e[2]).endswith("ptr::drop_in_place")]
        ok = len(dips) == 1
        if ok:
            a = N(dips[0][3][0])
            # cell i for i in 0..len, addressed by index ...
            ok = is_call(a, "add") and index_extent(a[2][1]) is not None and strip_epochs(index_extent(a[2][1])) == ("arg", 2)
            if not ok:
                # ... or handed out by iterating slice(base, len) (iter / iter_mut, possibly enumerated)
                for x in subterms(a):
                    sl = iter_elem_slice(x)
                    if sl is not None:
                        parts = slice_parts(sl)
                        ok = parts is not None and strip_epochs(parts[1]) == ("arg", 2) and contains(parts[0], lambda y: y[0] == "load" and NL(y[1]) == ("field", ("deref", SELF), "0"))
                        break
    R.check(ok, "C04-R3", "DataPtr::drop_to|loop", "drop_in_place(base+i) once per i in 0..len",
            "DataPtr::drop_to must drop cell i exactly once for each i in Range(0, len)", where_of(fn), fn=fn.key)
    # the only way out is exhaustion of that loop: an early return (e.g. for zero-sized T, which still has drop glue)
    # would leave cells undropped; `len == 0` is the one benign early-out
    for pi, p in enumerate(ps or ()):
        if p.end != "return":
            continue
        entered = any(e[0] == "loop" for e in p.effects)
        pre = [a for a in branch_atoms(p) if not contains(a[0][-1] if a[0][0] != "cmp" else ("agg", "tuple", None, None, (("0", a[0][2]), ("1", a[0][3]))), lambda x: is_call(x, "next"))]
        benign = (not entered) and len(pre) == 1 and pre[0][0] == ("cmp", "Eq", ("arg", 2), ("const", 0)) and pre[0][1] is True
        guards = pre
        R.check((entered and not guards) or benign, "C04-R3", "DataPtr::drop_to|no-early-exit#%d" % pi, "returns only after the drop loop is exhausted",
                "DataPtr::drop_to returns under %s %s: cells [0,len) are left undropped on that path (note: zero-sized values still have drop glue)" % (describe_atoms(pre), "without entering the drop loop" if not entered else "after guarding the loop"), where_of(fn), fn=fn.key)
    # from the unwind edge of drop_in_place no further drop_in_place is reachable
    bad = []
    for bi, b in enumerate(fn.blocks):
        t = b["t"]
        if t["k"] == "call" and not t["f"].get("indirect") and t["f"]["path"].endswith("ptr::drop_in_place") and isinstance(t.get("u"), int):
            seen, st = set(), [t["u"]]
            while st:
                x = st.pop()
                if x in seen:
                    continue
                seen.add(x)
                tt = fn.blocks[x]["t"]
                if tt["k"] == "call" and not tt["f"].get("indirect") and tt["f"]["path"].endswith("drop_in_place"):
                    bad.append(x)
                for k2 in ("t",):
                    if isinstance(tt.get(k2), int):
                        st.append(tt[k2])
                if tt["k"] == "switch":
                    st.extend([bb for _, bb in tt["ts"]] + [tt["o"]])
                if isinstance(tt.get("u"), int):
                    st.append(tt["u"])
    R.check(not bad, "C04-R3", "DataPtr::drop_to|unwind", "a panicking Drop does not lead to further cell drops in this loop",
            "after a panic in drop_in_place another drop_in_place is reachable on the unwind path (double drop)", where_of(fn), fn=fn.key)
    _unwind_guards(ctx, R, fn)


def bare_ty(t):
    """type or path string without any generic argument list (`A<T>::f::G<T>` -> `A::f::G`)"""
    out, d = [], 0
    for ch in t:
        if ch == "<":
            d += 1
        elif ch == ">":
            d -= 1
        elif d == 0:
            out.append(ch)
    return "".join(out).replace("::::", "::")


def cell_dropping_adts(g):
    """gecs-local types whose own Drop impl (transitively, depth 4) drops cells in place: unwinding continuation guards"""
    out = {}
    for name0, ad in g.adts.items():
        if not ad.get("has_dtor"):
            continue
        name = bare_ty(name0)
        for path, f in g.fns.items():
            if not (path.endswith("as std::ops::Drop>::drop") and path.startswith("<") and bare_ty(path[1:].split(" as std::ops::Drop>")[0]) == name):
                continue
            seen, st, hit = set(), [(f, 0)], False
            while st and not hit:
                h, d = st.pop()
                if h.key in seen:
                    continue
                seen.add(h.key)
                for b in h.blocks:
                    t = b["t"]
                    if t["k"] != "call" or t["f"].get("indirect"):
                        continue
                    cp = cname(t["f"]["path"])
                    if cp.endswith("drop_in_place") or cp.endswith("assume_init_drop") or cp.endswith("DataPtr::drop_to"):
                        hit = True
                        break
                    c2 = g.lookup(t["f"])
                    if c2 is not None and d < 4:
                        st.append((c2, d + 1))
            if hit:
                out[name] = f
    return out


def _unwind_guards(ctx, R, fn):
    """C04-R3 / C10-R8: if unwinding out of a panicking cell drop runs a guard that goes on dropping cells (the Vec idiom), the guard's
    cursor must have been moved past the cell *before* that cell's drop is called (a store into the guard that lies inside the loop and
    dominates the call).  A cursor that is only written after the call returns still designates the panicking cell at the unwind edge:
    that cell is dropped twice."""
    from .cfg import Cfg
    from .facts import strip_generics
    g = ctx.gecs
    guards = cell_dropping_adts(g)
    cfg = Cfg(fn)
    dom = cfg.dominators()
    n_guard = 0
    for bi, b in enumerate(fn.blocks):
        t = b["t"]
        if not (t["k"] == "call" and not t["f"].get("indirect") and t["f"]["path"].endswith("ptr::drop_in_place") and isinstance(t.get("u"), int)):
            continue
        seen, st = set(), [t["u"]]
        while st:
            x = st.pop()
            if x in seen:
                continue
            seen.add(x)
            tt = fn.blocks[x]["t"]
            if tt["k"] == "drop" and bare_ty(tt["ty"]) in guards and not tt["p"]["p"]:
                n_guard += 1
                gl = tt["p"]["l"]
                headers = [h for h in cfg.loop_headers() if bi in cfg.loop_body(h)]
                stores = [i for i, bb in enumerate(fn.blocks) if not bb["cleanup"] and any(s_["k"] == "assign" and s_["p"]["l"] == gl and s_["p"]["p"] for s_ in bb["st"])]
                good = [i for i in stores if i in dom.get(bi, ()) and any(h in dom.get(i, ()) for h in headers)]
                # a store in the call's own block precedes the terminator
                R.check(bool(good), "C10-R8", "%s|unwind-guard-cursor" % fn.short(),
                        "the continuation guard %s is advanced past the cell before that cell's drop is called" % strip_generics(tt["ty"]),
                        "unwinding out of a panicking cell drop runs the guard %s, which goes on dropping cells, but no store into the guard inside the loop dominates the drop_in_place call: at the unwind edge its cursor still designates the panicking cell, which is dropped a second time" % strip_generics(tt["ty"]),
                        where_of(fn, t["s"]), fn=fn.key)
            if isinstance(tt.get("t"), int):
                st.append(tt["t"])
            if tt["k"] == "switch":
                st.extend([bb for _, bb in tt["ts"]] + [tt["o"]])
            if isinstance(tt.get("u"), int):
                st.append(tt["u"])
    R.ok("C10-R8", "%s|unwind-guards-scanned" % fn.short(), "%d continuation guard(s) on the unwind path of the cell drop" % n_guard, fn=fn.key)


# ----------------------------------------------------------------------------------
# cloner: C13-R1/R2/R3, C04-R5, C11 (clone acquires every column shared, first)
# ----------------------------------------------------------------------------------
def rule_cloner(ctx, R):
    for S in ctx.storages():
        cs = roles(ctx, S)["cloner"]
        if len(cs) != 1:
            R.fail("C13-R1", "%s|cloner-count" % S.name, "expected exactly one Clone impl, found %d" % len(cs), None)
            continue
        f = cs[0]
        key = "%s::clone" % S.name
        ps = ctx.paths(f)
        if ps is None:
            R.fail("SHAPE", key + "|paths", "path enumeration failed", where_of(f), fn=f.key)
            continue
        rets_all = [p for p in ps if p.end == "return"]
        loops = [p for p in ps if isinstance(p.end, tuple) and p.end[0] == "backedge"]
        # every returning path must have run both copy loops; a shortcut that skips them returns something
        # that is not a cell-for-cell copy (slot generations, free list, archetype generation, event logs)
        rets = []
        # the copy loops of this clone: every loop header that occurs on some path (slot loop, dense loop(s))
        headers = sorted({e[1] for p in ps for e in p.effects if e[0] == "loop"})
        for pi, p in enumerate(rets_all):
            nloops = len({e[1] for e in p.effects if e[0] == "loop"})
            if nloops >= max(2, len(headers)):
                rets.append(p)
            else:
                R.fail("C13-R2", key + "|shortcut#%d" % pi, "Clone::clone returns under %s after running %d of its %d copy loops: the result (%s) is not a copy of the slot array / dense arrays of the source" % (
                    describe_atoms(branch_atoms(p)), nloops, max(2, len(headers)), show(N(p.ret))[:160]), where_of(f), fn=f.key)
        # (how many loops the dense arrays are copied in is free -- one loop per row or one per array group; that every
        # array is copied exactly once over its own extent is judged below per write and by the copy-set)
        R.check(len(rets) == 1 and len(loops) >= 2 and len(loops) == len(headers), "C13-R2", key + "|shape", "copy loops and one exit",
                "Clone::clone has %d fully copying returning paths and %d loop bodies over %d loops; expected one exit after all copy loops (a slot loop and at least one dense loop)" % (len(rets), len(loops), len(headers)), where_of(f), fn=f.key)
        if len(rets) != 1:
            R.fail("C12-R6", key + "|clone-keeps-every-slot", "Clone::clone has no single returning path that ran a slot loop over 0..capacity and a dense loop over 0..len: it cannot be established that the clone receives every slot next to the source's len (a clone whose slot array is only partly carried over reports a len() its handles do not add up to)", where_of(f), fn=f.key)
            continue
        rp = rets[0]
        ret = N(rp.ret)
        d = dict(ret[4]) if ret[0] == "agg" else {}
        RL = None  # the local the clone is built in, when it is built in place on the constructor's result
        if ret[0] != "agg":
            ip = inplace_summary(ctx, S, f, rp, loops, ret)
            if ip is not None:
                RL, d = ip
        for fld in ("len", "version", "capacity", "free_head"):
            v = d.get(fld)
            R.check(v is not None and strip_epochs(v) == strip_epochs(sf(fld)), "C13-R1", key + "|field(%s)" % fld, "%s copied from the source" % fld,
                    "clone sets %s = %s; expected the source's %s" % (fld, show(v), fld), where_of(f), fn=f.key)
        if ctx.has("events"):
            for fld in ("created", "destroyed"):
                v = d.get(fld)
                ok = v is not None and is_call(v, "clone") and v[2][0] in (("ref", floc(fld)), sf(fld))
                R.check(ok, "C13-R1", key + "|field(%s)" % fld, "pending %s events cloned" % fld, "clone sets %s = %s; expected self.%s.clone()" % (fld, show(v), fld), where_of(f), fn=f.key)
        # arrays are fresh allocations of self.capacity
        for arr in [S.slots, S.entities] + S.columns:
            v = d.get(arr)
            fresh = v is not None and contains(v, lambda x: is_call(x, "DataPtr::with_capacity") and strip_epochs(x[2][0]) == strip_epochs(sf("capacity")))
            arrs = set([S.slots, S.entities] + S.columns)
            shares = v is not None and contains(v, lambda x: x[0] in ("load", "ref") and array_field_of(x[1]) in arrs)
            R.check(fresh and not shares, "C13-R3", key + "|fresh(%s)" % arr, "array is a fresh allocation of self.capacity, no pointer of self flows in",
                    "clone's %s is %s; expected a fresh DataPtr::with_capacity(self.capacity) that only received the loop writes" % (arr, show(v)[:200]), where_of(f), fn=f.key)
        # borrows first
        first_alloc = min([rp.effects.index(e) for e in rp.effects if e[0] == "call" and prim_name(e) == "with_capacity"] or [10 ** 9])
        bor = [e for e in rp.effects if e[0] == "call" and cname(e[2]).endswith("RefCell::borrow")]
        barr = [receiver_array_any(e[3][0]) for e in bor]
        R.check(sorted(barr) == sorted(S.columns) and all(rp.effects.index(e) < first_alloc for e in bor), "C11-R2", key + "|borrows-first", "every column borrowed shared before the first allocation",
                "clone borrows %s; expected a shared borrow of every column %s before the first allocation" % (barr, S.columns), where_of(f), fn=f.key)
        # C04: the documented "already borrowed" panic of clone must come before anything is cloned, or the values cloned so
        # far are abandoned in raw buffers that nothing drops (the mode of the guards is C11's matter, their position is C04's)
        bor_any = [e for e in rp.effects if e[0] == "call" and (cname(e[2]).endswith("RefCell::borrow") or cname(e[2]).endswith("RefCell::borrow_mut"))]
        barr_any = [receiver_array_any(e[3][0]) for e in bor_any]
        R.check(sorted(set(barr_any)) == sorted(S.columns) and all(rp.effects.index(e) < first_alloc for e in bor_any), "C04-R8", key + "|guards-before-cloning", "every column guard is taken before the first allocation",
                "clone takes the guards of %s at positions after its first allocation / clone; a borrow panic there abandons the values cloned so far" % barr_any, where_of(f), fn=f.key)
        bm = [e for p in ps for e in p.effects if e[0] == "call" and (cname(e[2]).endswith("RefCell::borrow_mut") or cname(e[2]).endswith("RefCell::get_mut") or cname(e[2]).endswith("RefCell::as_ptr"))]
        if RL is not None:
            # exclusive access to the columns of the clone under construction is not access to a column of the source
            bm = [e for e in bm if result_field(N(e[3][0]), RL) is None]
        R.check(not bm, "C11-R2", key + "|no-exclusive", "clone never takes a column exclusively or unguarded", "clone calls %s on a column" % [cname(e[2]) for e in bm], where_of(f), fn=f.key)
        # loops
        cap_rng = ("agg", "adt", "std::ops::Range", "Range", (("start", ("const", 0)), ("end", sf("capacity"))), 0)
        len_rng = ("agg", "adt", "std::ops::Range", "Range", (("start", ("const", 0)), ("end", sf("len"))), 0)
        seen_arrays = []
        for lp in loops:
            # the writes made by this loop body (after its loop marker)
            marks = [i for i, e in enumerate(lp.effects) if e[0] == "loop"]
            start = marks[-1] if marks else 0
            writes = [e for e in lp.effects[start:] if e[0] == "call" and prim_name(e) == "write"]
            for e in writes:
                idx = N(e[3][1])
                val = N(e[3][2], clone=True)
                ok = False
                arr = None
                rng_ext = index_extent(idx)          # idx ranges over 0..rng_ext (index loop or slice.iter().enumerate())
                srcinfo = element_source(val, idx)    # val = clone of cell idx of slice(array, ext)
                if rng_ext is not None and srcinfo is not None:
                    (aptr, ext) = srcinfo
                    arr = array_of(aptr, S)
                    want_ext = sf("capacity") if arr == S.slots else sf("len")
                    ok = strip_epochs(rng_ext) == strip_epochs(want_ext) and strip_epochs(ext) == strip_epochs(want_ext)
                    # destination must be the fresh array that ends up in the same field
                    dst = N(e[3][0])
                    fin = d.get(arr)
                    ok = ok and fin is not None and (same_local(dst, fin) if RL is None else result_field(dst, RL) == arr)
                seen_arrays.append(arr)
                R.check(ok, "C13-R2", key + "|copy(%s)" % arr, "cell i of %s cloned into cell i of the new %s for i in 0..%s" % (arr, arr, "capacity" if arr == S.slots else "len"),
                        "copy loop writes %s[%s] <- %s; expected element-wise clone over Range(0, %s) into the array that becomes the clone's %s" % (arr, show(idx)[:80], show(val)[:120], "capacity" if arr == S.slots else "len", arr), where_of(f, e[5]), fn=f.key)
        # C12-R6: len() of the clone equals the number of entities its handles resolve to only if the whole slot array (every position
        # up to capacity, free ones included) is carried over next to `len`: judged on the slot copy found above
        slot_ok = [e_ for e_ in R.okkeys if e_ == ("C13-R2", key + "|copy(%s)" % S.slots)]
        R.check(bool(slot_ok) and seen_arrays.count(S.slots) == 1, "C12-R6", key + "|clone-keeps-every-slot", "the clone receives slot i for every i in 0..capacity, next to the source's len",
                "the clone does not receive every slot of 0..capacity exactly once: positions left as freshly threaded free slots (or linked differently) make the clone's len() disagree with the entities its handles resolve to, and let it hand out a live entity's handle again", where_of(f), fn=f.key)
        want = [S.slots, S.entities] + S.columns
        R.check(sorted(x or "?" for x in seen_arrays) == sorted(want), "C04-R5", key + "|copy-set", "each array copied by exactly one loop write",
                "loop writes cover %s; expected exactly one per array %s" % (seen_arrays, want), where_of(f), fn=f.key)
        # cloner does not write self
        st = [e for p in ps for e in p.effects if e[0] == "store" and e[5] == f.key and not (RL is not None and loc_root(e[1]) == ("local", 0, RL))]
        R.check(not st, "C13-R3", key + "|source-untouched", "clone performs no store through self", "clone stores through a pointer: %s" % [show(("load", NL(e[1]), 0)) for e in st[:3]], where_of(f), fn=f.key)
    dp = ctx.gecs.adts.get("archetype::storage::DataPtr")
    impls = [i for i in ctx.gecs.impls if i["self"].startswith("archetype::storage::DataPtr<") and i.get("trait") in ("std::clone::Clone", "std::marker::Copy")]
    R.check(not impls, "C13-R3", "DataPtr|not-Clone", "DataPtr is neither Copy nor Clone (arrays cannot be shared by copying the pointer)", "DataPtr implements %s" % [i["trait"] for i in impls], None)


def array_field_of(L):
    cur = L
    while cur is not None and isinstance(cur, tuple):
        if cur[0] == "field" and cur[1] == ("deref", SELF):
            return cur[2]
        cur = cur[1] if cur[0] in ("field", "downcast", "index", "cindex") else None
    return None


def loc_root(L):
    while isinstance(L, tuple) and L and L[0] in ("field", "vfield", "index", "downcast") and len(L) > 1 and isinstance(L[1], tuple):
        L = L[1]
    return L


def result_field(dst, RL):
    """the field F when dst designates `result.F` of the local RL the clone is built in (`&mut result.F`, `result.F.get_mut()`)"""
    if dst[0] == "ref" and isinstance(dst[1], tuple) and dst[1][0] == "field" and dst[1][1] == ("local", 0, RL):
        return dst[1][2]
    for x in subterms(dst):
        if x[0] == "field" and x[1] == ("local", 0, RL):
            return x[2]
        if x[0] == "vfield" and isinstance(x[1], tuple):
            y = x[1]
            while y[0] == "loopvar":
                if y[2] == RL:
                    return x[2]
                y = y[3]
    return None


def subst_arg(t, arg):
    """replace the constructor's own parameter (`arg 1`) by the actual argument of the call"""
    if not isinstance(t, tuple):
        return t
    if t == ("arg", 1):
        return arg
    return tuple(subst_arg(x, arg) for x in t)


def inplace_summary(ctx, S, f, rp, loops, ret):
    """A clone built in place: `let mut result = Self::with_capacity(X); ...field stores / loop writes...; result`.
    -> (result local, {field: final value}) where the base values are those of the constructor's own returned struct literal (with its
    parameter replaced by X), overlaid by the stores into `result.<field>` on the returning path; `len` may also be advanced in the dense
    copy loop (`result.len = idx + 1` over 0..self.len, from the constructor's 0), which leaves it at self.len when the loop is done.
    None when the shape is anything else."""
    core_ = ret
    RL = None
    while core_[0] == "loopvar":
        RL = core_[2]
        core_ = core_[3]
    ctors = roles(ctx, S).get("ctor") or []
    if RL is None or len(ctors) != 1 or not (core_[0] == "call" and cname(core_[1]).endswith("::with_capacity") and "Storage" in core_[1] and len(core_[2]) == 1):
        return None
    cps = ctx.paths(ctors[0])
    crets = [p for p in (cps or []) if p.end == "return"]
    if len(crets) != 1:
        return None
    cagg = N(crets[0].ret)
    if cagg[0] != "agg":
        return None
    arg = core_[2][0]
    d = {k: subst_arg(v, arg) for k, v in dict(cagg[4]).items()}
    for e in rp.effects:
        if e[0] == "store" and e[1][0] == "field" and e[1][1] == ("local", 0, RL):
            d[e[1][2]] = N(e[2])
        elif e[0] == "call" and cname(e[2]).endswith("clone_from") and len(e[3]) == 2:
            fld = result_field(N(e[3][0]), RL)
            src = N(e[3][1])
            if fld is not None and src == ("ref", floc(fld)):
                d[fld] = ("call", "std::clone::Clone::clone", (src,))
    for lp in loops:
        marks = [i for i, e in enumerate(lp.effects) if e[0] == "loop"]
        start = marks[-1] if marks else 0
        for e in lp.effects[start:]:
            if not (e[0] == "store" and loc_root(e[1]) == ("local", 0, RL)):
                continue
            fld = e[1][2] if e[1][0] == "field" and e[1][1] == ("local", 0, RL) else None
            v = N(e[2])
            if fld == "len" and d.get("len") == ("const", 0) and v[0] == "bin" and v[1] == "Add" and v[3] == ("const", 1) and index_extent(v[2]) is not None and strip_epochs(index_extent(v[2])) == strip_epochs(sf("len")):
                d["len"] = sf("len")
            elif fld is not None:
                d[fld] = ("unknown-loop-store", fld)
    return RL, d


def same_local(dst, fin):
    """dst is `&_n` (ref to a local array), fin mentions loopvar/with_capacity of the same local."""
    if dst[0] != "ref" or dst[1][0] != "local":
        return False
    n = dst[1][2]
    for x in subterms(fin):
        if x[0] == "loopvar" and x[2] == n:
            return True
    return False


# ----------------------------------------------------------------------------------
# iterators: C06-R1, C06-R2
# ----------------------------------------------------------------------------------
def iter_structs(ctx):
    out = []
    for path, adt in sorted(ctx.gecs.adts.items()):
        if adt["kind"] != "Struct":
            continue
        fs = [(f["n"], f["ty"]) for f in adt["variants"][0]["fields"]]
        ptrs = [n for n, t in fs if t.startswith("*const ") or t.startswith("*mut ")]
        cnt = [n for n, t in fs if t == "usize"]
        if ptrs and len(cnt) == 1 and path.startswith("archetype::iter::"):
            out.append((path, ptrs, cnt[0]))
    return out


def rule_iters(ctx, R):
    structs = iter_structs(ctx)
    for (path, ptrs, cnt) in structs:
        name = path.split("::")[-1]
        nexts = [f for p_, f in ctx.gecs.fns.items() if f.d.get("impl_self", "").startswith(path + "<") and f.d.get("trait_item", "").endswith("Iterator::next")]
        if len(nexts) != 1:
            R.fail("C06-R2", "%s|next-count" % name, "expected one Iterator::next impl", None)
            continue
        f = nexts[0]
        ps = ctx.paths(f)
        key = "%s::next" % name
        some = [p for p in ps or () if p.end == "return" and is_some(N(p.ret))]
        none = [p for p in ps or () if p.end == "return" and is_none(N(p.ret))]
        if len(some) != 1 or len(none) != 1 or len(ps) != 2:
            R.fail("C06-R2", key + "|paths", "expected exactly one Some and one None path, found %d/%d of %d" % (len(some), len(none), len(ps or ())), where_of(f), fn=f.key)
            continue
        rem = sf(cnt)
        eq0 = ("cmp", "Eq", rem, ("const", 0))
        R.check(branch_atoms(none[0]) == [(eq0, True)], "C06-R2", key + "|none-iff-exhausted", "None iff remaining == 0", "None under %s" % describe_atoms(branch_atoms(none[0])), where_of(f), fn=f.key)
        p = some[0]
        R.check(branch_atoms(p) == [(eq0, False)], "C06-R2", key + "|some-iff-remaining", "Some iff remaining != 0", "Some under %s" % describe_atoms(branch_atoms(p)), where_of(f), fn=f.key)
        ret = N(p.ret)
        tup = ret[4][0][1]
        items = [v for _, v in tup[4]] if tup[0] == "agg" else []
        ok = len(items) == len(ptrs) and all(items[i] == sf(ptrs[i]) for i in range(len(items)))
        R.check(ok, "C06-R2", key + "|item", "item = (current entity ptr, current column ptrs) in field order, taken before the advance",
                "yielded tuple is %s; expected the pre-advance pointer fields %s in order" % (show(tup)[:200], ptrs), where_of(f), fn=f.key)
        stores = {}
        for e in p.effects:
            if e[0] == "store" and e[5] == f.key:
                L = NL(e[1])
                if L[0] == "field" and L[1] == ("deref", SELF):
                    stores.setdefault(L[2], []).append(N(e[2]))
        for pf in ptrs:
            v = stores.get(pf, [])
            ok = len(v) == 1 and any(is_call(v[0], m_) for m_ in ("offset", "add", "wrapping_add", "wrapping_offset")) and v[0][2] == (sf(pf), ("const", 1))
            R.check(ok, "C06-R2", key + "|advance(%s)" % pf, "pointer advanced by exactly one element once", "field %s is updated with %s; expected offset(old, 1) exactly once" % (pf, [show(x) for x in v]), where_of(f), fn=f.key)
        v = stores.get(cnt, [])
        R.check(len(v) == 1 and v[0] == ("bin", "Sub", rem, ("const", 1)), "C06-R2", key + "|count-1", "remaining decremented exactly once", "remaining updated with %s" % [show(x) for x in v], where_of(f), fn=f.key)
    # every other method of the iterator structs (nth, fold, next_back, size_hint, ... whatever exists now or later):
    # a method that moves any cursor moves all of them, and the counter, by the same amount -- otherwise the entity
    # pointer and the column pointers fall out of step and an entity is presented with another entity's data
    for (path, ptrs, cnt) in structs:
        name = path.split("::")[-1]
        others = [f for p_, f in sorted(ctx.gecs.fns.items()) if f.d.get("impl_self", "").startswith(path + "<") and f.kind == "AssocFn" and not f.d.get("trait_item", "").endswith("Iterator::next")]
        for f in others:
            ps = ctx.paths(f)
            key = "%s::%s" % (name, fname(f))
            if ps is None:
                R.fail("C06-R2", key + "|paths", "path enumeration failed for a method of an iterator struct (fail closed)", where_of(f), fn=f.key)
                continue
            bad = None
            for p in ps:
                stores = {}
                for e in p.effects:
                    if e[0] == "store" and e[5] == f.key:
                        L = NL(e[1])
                        if L[0] == "field" and L[1] == ("deref", SELF):
                            stores.setdefault(L[2], []).append(N(e[2]))
                moved = [pf for pf in ptrs if pf in stores]
                if not moved and cnt not in stores:
                    continue
                steps = set()
                for pf in ptrs:
                    v = stores.get(pf, [])
                    if len(v) != 1 or not (is_call(v[0], "offset") or is_call(v[0], "add") or is_call(v[0], "wrapping_add") or is_call(v[0], "wrapping_offset")) or v[0][2][0] != sf(pf):
                        bad = "cursor %s is %s on a path that moves %s" % (pf, "not moved" if not v else "updated with %s" % [show(x) for x in v], moved or [cnt])
                        break
                    steps.add(strip_epochs(v[0][2][1]))
                if bad:
                    break
                v = stores.get(cnt, [])
                if len(v) != 1 or v[0][0] != "bin" or v[0][1] != "Sub" or v[0][2] != sf(cnt):
                    bad = "the counter is updated with %s on a path that moves the cursors" % [show(x) for x in v]
                    break
                steps.add(strip_epochs(v[0][3]))
                if len(steps) != 1:
                    bad = "cursors and counter move by different amounts: %s" % sorted(show(x) for x in steps)
                    break
            R.check(bad is None, "C06-R2", key + "|uniform-advance", "moves no cursor, or all cursors and the counter by one common amount", "%s: %s" % (key, bad), where_of(f), fn=f.key)
    # constructors: every aggregate of an iterator struct
    spaths = {p for p, _, _ in structs}
    built = 0
    for S in ctx.storages():
        for k, f in sorted(S.fns.items()):
            for p in ctx.paths(f) or ():
                if p.end != "return":
                    continue
                ret = N(p.ret)
                if ret[0] == "agg" and ret[2] in spaths:
                    built += 1
                    key = "%s::%s" % (S.name, fname(f))
                    d = dict(ret[4])
                    (spath, ptrs, cnt) = [x for x in structs if x[0] == ret[2]][0]
                    R.check(d.get(cnt) == sf("len"), "C06-R1", key + "|remaining", "remaining = self.len", "iterator starts with remaining = %s; expected self.len" % show(d.get(cnt)), where_of(f), fn=f.key)
                    want = [S.entities] + S.columns
                    for i, pf in enumerate(ptrs):
                        arr = array_of(d.get(pf), S) if d.get(pf) is not None else None
                        R.check(i < len(want) and arr == want[i], "C06-R1", key + "|ptr(%s)" % pf, "pointer field %d starts at the base of %s" % (i, want[i] if i < len(want) else "?"),
                                "iterator field %s starts at %s; expected the base of %s" % (pf, show(d.get(pf))[:120], want[i] if i < len(want) else "?"), where_of(f), fn=f.key)
    # who may construct iterator structs: only storage fns (counted above) -- any other aggregate site is flagged
    for path, fn in sorted(ctx.gecs.fns.items()):
        for b in fn.blocks:
            for s in b["st"]:
                if s["k"] == "assign" and s["rv"]["k"] == "agg" and s["rv"].get("adt") in spaths:
                    ok = fn.d.get("impl_self", "").startswith("archetype::storage::Storage")
                    R.check(ok, "C06-R1", "iter-constructor|%s" % fn.short(), "iterator structs are only built by storage fns", "%s constructs %s outside the storage" % (fn.short(), s["rv"]["adt"]), where_of(fn, s["s"]), fn=fn.key)


# ----------------------------------------------------------------------------------
# accessors: C12-R3
# ----------------------------------------------------------------------------------
def rule_accessors(ctx, R):
    for S in ctx.storages():
        for nm, want in (("len", sf("len")), ("capacity", sf("capacity")), ("version", sf("version")), ("is_empty", ("bin", "Eq", sf("len"), ("const", 0)))):
            f = S.fns.get(nm)
            if f is None:
                R.anchor_missing("%s::%s" % (S.name, nm))
                continue
            ps = ctx.paths(f)
            ok = ps is not None and len(ps) == 1 and ps[0].ret is not None and N(ps[0].ret) == want and not [e for e in ps[0].effects if e[0] == "store"]
            R.check(ok, "C12-R3", "%s::%s" % (S.name, nm), "accessor reports the field", "%s() returns %s; expected %s" % (nm, show(N(ps[0].ret)) if ps and ps[0].ret is not None else None, show(want)), where_of(f), fn=f.key)


# ----------------------------------------------------------------------------------
# who may write / who may call: X-WMW, X-WMC
# ----------------------------------------------------------------------------------
def rule_who_may(ctx, R):
    for S in ctx.storages():
        rl = roles(ctx, S)
        role_of = {}
        for r, fs in rl.items():
            for f in fs:
                role_of.setdefault(f.key, set()).add(r)
        allowed = {
            "len": {"creator", "remover"},
            "capacity": {"grower"},
            "free_head": {"creator", "remover", "grower"},
            "version": {"remover"},
            "created": set(), "destroyed": set(),
        }
        for k, f in sorted(S.fns.items()):
            ps = ctx.paths(f)
            if ps is None:
                continue
            fr = role_of.get(f.key, set())
            written = set()
            for p in ps:
                for e in p.effects:
                    if e[0] == "store" and e[5] == f.key:
                        L = NL(e[1])
                        cur = L
                        while cur is not None:
                            if cur[0] == "field" and cur[1] == ("deref", SELF):
                                written.add(cur[2])
                                break
                            cur = cur[1] if cur[0] in ("field", "downcast", "index", "cindex") else None
            recv = (f.sig() or {}).get("inputs", [""])[0] if (f.sig() or {}).get("inputs") else ""
            for fld in sorted(written):
                if fld in allowed:
                    ok = bool(fr & allowed[fld])
                    rid = "C17-R1" if fld in ("created", "destroyed") else "X-WMW"
                    R.check(ok, rid, "%s::%s|writes(%s)" % (S.name, k, fld), "%s written by its %s" % (fld, sorted(fr & allowed[fld])),
                            "%s (role %s) stores to self.%s; only %s may" % (k, sorted(fr) or "none", fld, sorted(allowed[fld])), where_of(f), fn=f.key)
                R.check(is_mut_ref(recv), "X-WMW", "%s::%s|receiver(%s)" % (S.name, k, fld), "representation writes need &mut self",
                        "%s writes self.%s through a %s receiver" % (k, fld, recv), where_of(f), fn=f.key)
            # who may call ownership primitives
            prim_allowed = {"write": {"creator", "cloner"}, "swap_remove": {"remover"}, "drop_to": {"dropper"}, "dealloc": {"dropper"}, "grow": {"grower"}, "ptr_data": None}
            for p in ps:
                for e in p.effects:
                    if e[0] == "call" and e[6] == f.key:
                        pn = prim_name(e)
                        if pn in prim_allowed and prim_allowed[pn] is not None:
                            ok = bool(fr & prim_allowed[pn])
                            R.check(ok, "X-WMC", "%s::%s|calls(%s)" % (S.name, k, pn), "%s called by %s" % (pn, sorted(fr & prim_allowed[pn])),
                                    "%s (role %s) calls DataPtr::%s; only %s may" % (k, sorted(fr) or "none", pn, sorted(prim_allowed[pn])), where_of(f, e[5]), fn=f.key)
                        cn = cname(e[2])
                        if cn.endswith("Vec::push") or cn.endswith("Vec::clear") or cn.endswith("Vec::insert") or cn.endswith("Vec::pop") or cn.endswith("Vec::remove") or cn.endswith("Vec::truncate"):
                            tgt = receiver_array_any(e[3][0])
                            if tgt in ("created", "destroyed"):
                                want = {"created": {"creator"}, "destroyed": {"remover"}}[tgt]
                                ok = (cn.endswith("Vec::push") and bool(fr & want)) or (cn.endswith("Vec::clear") and k == "clear_events")
                                R.check(ok, "C17-R1", "%s::%s|%s(%s)" % (S.name, k, cn.split("::")[-1], tgt), "event log %s modified by %s" % (tgt, k),
                                        "%s calls %s on self.%s; only the %s may push and only clear_events may clear" % (k, cn, tgt, sorted(want)), where_of(f, e[5]), fn=f.key)
        if ctx.has("events"):
            f = S.fns.get("clear_events")
            if f is None:
                R.anchor_missing("%s::clear_events" % S.name)
            else:
                ps = ctx.paths(f)
                ok = ps is not None and len(ps) == 1
                if ok:
                    cl = [receiver_array_any(e[3][0]) for e in ps[0].effects if e[0] == "call" and cname(e[2]).endswith("Vec::clear")]
                    st = [e for e in ps[0].effects if e[0] == "store"]
                    oth = [e for e in ps[0].effects if e[0] == "call" and not cname(e[2]).endswith("Vec::clear") and not e[7]]
                    ok = sorted(cl) == ["created", "destroyed"] and not st and not oth
                R.check(ok, "C17-R4", "%s::clear_events" % S.name, "clears both logs and nothing else", "clear_events must call Vec::clear on created and destroyed and have no other effect", where_of(f), fn=f.key)
            for nm in ("created", "destroyed"):
                f = S.fns.get(nm)
                if f is None:
                    R.anchor_missing("%s::%s" % (S.name, nm))
                    continue
                ps = ctx.paths(f)
                ok = ps is not None and len(ps) == 1 and ps[0].ret is not None and receiver_array_any(ps[0].ret) == nm
                R.check(ok, "C17-R4", "%s::%s" % (S.name, nm), "accessor exposes its own log", "%s() returns %s" % (nm, show(N(ps[0].ret))[:100] if ps and ps[0].ret is not None else None), where_of(f), fn=f.key)
        else:
            for nm in ("created", "destroyed", "clear_events"):
                R.check(nm not in S.fns and nm not in S.fields, "C17-R1", "%s|no-%s" % (S.name, nm), "no event code without the feature", "%s exists without the events feature" % nm, None)


# ----------------------------------------------------------------------------------
# RefCell discipline: C11-R1, C11-R2
# ----------------------------------------------------------------------------------
import re as _re


def is_mut_ref(ty):
    return bool(_re.match(r"^&('[A-Za-z_0-9]+ )?mut ", ty))


def is_shared_ref(ty):
    return ty.startswith("&") and not is_mut_ref(ty)


CELL_OK = ("RefCell::borrow", "RefCell::borrow_mut", "RefCell::get_mut", "RefCell::new")
CELL_BAD = ("RefCell::as_ptr", "RefCell::try_borrow_unguarded", "RefCell::try_borrow", "RefCell::try_borrow_mut", "RefCell::replace", "RefCell::swap", "RefCell::take",
            "RefCell::into_inner", "RefCell::replace_with", "RefCell::undo_leak", "Ref::leak", "RefMut::leak", "UnsafeCell::get", "UnsafeCell::raw_get", "mem::forget", "ManuallyDrop::new", "Box::leak")


def owned_value(t):
    """the receiver term designates (a field of) a value the function itself produced -- the result of a call, or a local built from
    one -- and not something reached through the receiver `self`"""
    for _ in range(12):
        if t[0] in ("vfield",) and isinstance(t[1], tuple):
            t = t[1]
        elif t[0] == "loopvar":
            t = t[3]
        elif t[0] == "ref" and isinstance(t[1], tuple):
            r = loc_root(t[1])
            return r[0] == "local"
        elif t[0] == "call":
            return True
        else:
            return False
    return False


def rule_cells(ctx, R):
    borrows = borrow_units(ctx)
    for S in ctx.storages():
        for (label, f, ps, root) in storage_units(ctx, S):
            if ps is None:
                continue
            acq = set()
            recv = (f.sig() or {}).get("inputs", [""])
            shared_recv = bool(recv) and is_shared_ref(recv[0])
            for p in ps:
                for e in p.effects:
                    if e[0] != "call":
                        continue
                    cn = cname(e[2])
                    if any(cn.endswith(b) for b in CELL_BAD):
                        R.fail("C11-R1", "%s::%s|forbidden(%s)" % (S.name, label, cn), "%s calls %s: cells must only be reached through borrow/borrow_mut (shared) or get_mut (exclusive receiver)" % (label, cn), where_of(f, e[5]), fn=f.key)
                    if cn.endswith("RefCell::borrow") or cn.endswith("RefCell::borrow_mut") or cn.endswith("RefCell::get_mut"):
                        col = receiver_array_any(e[3][0], root)
                        kind = cn.split("::")[-1]
                        acq.add((col, kind))
                        # (get_mut on a storage the function owns -- a clone under construction -- is not access to a column of the receiver)
                        if kind == "get_mut" and f.kind == "AssocFn" and not owned_value(N(e[3][0])):
                            R.check(not shared_recv, "C11-R1", "%s::%s|get_mut-needs-exclusive" % (S.name, label), "get_mut under &mut self", "RefCell::get_mut reached from a shared receiver", where_of(f, e[5]), fn=f.key)
            judge_acquisition(R, S, label, f, acq)
    for (bname, srcfield, label, f, ps, root) in borrows:
        acq = set()
        for p in ps or ():
            for e in p.effects:
                if e[0] != "call":
                    continue
                cn = cname(e[2])
                if any(cn.endswith(b) for b in CELL_BAD):
                    R.fail("C11-R1", "%s::%s|forbidden(%s)" % (bname, label, cn), "%s calls %s" % (label, cn), where_of(f, e[5]), fn=f.key)
                if cn.endswith("RefCell::borrow") or cn.endswith("RefCell::borrow_mut") or cn.endswith("RefCell::get_mut"):
                    acq.add((receiver_array_any(e[3][0], root), cn.split("::")[-1]))
        judge_acquisition(R, None, label, f, acq, bname)


def borrow_units(ctx):
    from .r_storage import borrow_structs
    out = []
    for (bpath, srcfield, fs) in borrow_structs(ctx):
        bname = bpath.split("::")[-1]
        root = ("load", ("field", ("deref", SELF), srcfield), 0)
        for p_, f in sorted(ctx.gecs.fns.items()):
            if not f.d.get("impl_self", "").startswith(bpath + "<") or f.kind != "AssocFn" or f.d.get("impl_trait"):
                continue
            out.append((bname, srcfield, fname(f), f, ctx.paths(f), root))
    return out


def judge_acquisition(R, S, label, f, acq, owner=None):
    """Exactly the cells of the columns handed out, in the right mode, nothing else."""
    import re
    name = owner or S.name
    base = label.split("::")[0]
    m = re.match(r"^(borrow_slice|borrow_component)(_mut)?_(\d+)$", base)
    if m:
        want = {("d%s" % m.group(3), "borrow_mut" if m.group(2) else "borrow")}
        if "{closure}" in label:
            want = set()
        R.check(acq == want, "C11-R2", "%s::%s|acquires" % (name, label), "acquires exactly %s" % sorted(want),
                "%s acquires %s; expected exactly %s (an access takes the cell of the column it hands out, in the mode it hands out, and nothing else)" % (label, sorted(acq), sorted(want)), where_of(f), fn=f.key)
        return
    if base in ("begin_borrow", "entity", "index", "get_slice_entities", "len", "capacity", "version", "is_empty", "resolve", "resolve_entity", "resolve_direct", "to_direct", "created", "destroyed") or base.startswith("StorageCanResolve<") and base.endswith(("resolve_for", "resolve_direct")):
        R.check(not acq, "C11-R2", "%s::%s|acquires-nothing" % (name, label), "no cell acquired",
                "%s acquires %s; handles, lookups and counters need no cell" % (label, sorted(acq)), where_of(f), fn=f.key)
        return
    # everything else: shared receivers may only use borrow/borrow_mut; exclusive ones get_mut
    for (col, kind) in acq:
        if kind in ("borrow", "borrow_mut") and not label.startswith("Clone<"):
            R.fail("C11-R2", "%s::%s|unexpected-%s(%s)" % (name, label, kind, col), "%s takes a runtime %s of column %s; only the borrow_* accessors and clone acquire cells at run time" % (label, kind, col), where_of(f), fn=f.key)


# ----------------------------------------------------------------------------------
# DataPtr primitives: C02-R3 (swap_remove), shapes the extent rules rely on, C04-R7 forbidden calls
# ----------------------------------------------------------------------------------
def rule_dataptr_primitives(ctx, R):
    g = ctx.gecs
    base = ("call", "std::ptr::NonNull::<T>::as_ptr", (("load", ("field", ("deref", SELF), "0"), 0),))

    def fn(name):
        f = g.fns.get("archetype::storage::DataPtr::<T>::" + name)
        if f is None:
            R.anchor_missing("archetype::storage::DataPtr::<T>::" + name)
        return f

    def one(f, name):
        ps = ctx.paths(f)
        if ps is None or len(ps) != 1 or ps[0].end != "return":
            R.fail("SHAPE", "DataPtr::%s|single-path" % name, "DataPtr::%s is expected to be straight-line" % name, where_of(f), fn=f.key)
            return None
        return ps[0]

    def is_base(v):
        v = strip_epochs(v)
        return v == strip_epochs(base) or (is_call(v, "as_ptr") and is_call(v[2][0], "cast") and strip_epochs(v[2][0][2][0]) == strip_epochs(base[2][0]))

    for name, ctor in (("slice", "from_raw_parts"), ("slice_mut", "from_raw_parts_mut"), ("raw_data", "from_raw_parts_mut")):
        f = fn(name)
        if f is None:
            continue
        p = one(f, name)
        if p is None:
            continue
        ret = N(p.ret)
        ok = is_call(ret, "slice::" + ctor) and is_base(ret[2][0]) and ret[2][1] == ("arg", 2)
        R.check(ok, "X-EXT@prim", "DataPtr::%s" % name, "%s(len) = %s(base, len): the extent passed is the extent of the view" % (name, ctor),
                "DataPtr::%s returns %s; expected %s(self.0, len)" % (name, show(ret), ctor), where_of(f), fn=f.key)
    f = fn("write")
    if f is not None:
        p = one(f, "write")
        if p is not None:
            w = [e for e in p.effects if e[0] == "call" and cname(e[2]).endswith("MaybeUninit::write")]
            ok = len(w) == 1 and is_call(N(w[0][3][0]), "add") and is_base(N(w[0][3][0])[2][0]) and N(w[0][3][0])[2][1] == ("arg", 2) and N(w[0][3][1]) == ("arg", 3)
            R.check(ok, "C02-R3", "DataPtr::write", "write(index, val) stores val at cell index, without reading/dropping the old cell", "DataPtr::write performs %s" % [[show(N(a)) for a in e[3]] for e in w], where_of(f), fn=f.key)
    f = fn("swap_remove")
    if f is not None:
        p = one(f, "swap_remove")
        if p is not None:
            idx, ln = ("arg", 2), ("arg", 3)
            last = ("bin", "Sub", ln, ("const", 1))
            ret = N(p.ret)
            def cell(v, i):
                return is_call(v, "add") and is_base(v[2][0]) and v[2][1] == i
            def is_read(v):
                return is_call(v, "ptr::read") or is_call(v, "mut_ptr::read") or is_call(v, "const_ptr::read")

            def copy_of(e):
                """(src, dst, count) of a memory copy in any of its spellings"""
                cn_ = cname(e[2])
                a_ = [N(x) for x in e[3]]
                if cn_.endswith(("ptr::copy", "ptr::copy_nonoverlapping")) and len(a_) == 3:
                    return (a_[0], a_[1], a_[2])
                if cn_.endswith(("_ptr::copy_to", "_ptr::copy_to_nonoverlapping")) and len(a_) == 3:
                    return (a_[0], a_[1], a_[2])
                if cn_.endswith(("_ptr::copy_from", "_ptr::copy_from_nonoverlapping")) and len(a_) == 3:
                    return (a_[1], a_[0], a_[2])
                return None

            okr = is_call(ret, "assume_init") and is_read(ret[2][0]) and cell(ret[2][0][2][0], idx)
            R.check(okr, "C02-R3", "DataPtr::swap_remove|returns-cell(index)", "returns the value read out of cell `index`", "swap_remove returns %s; expected the value of cell `index`" % show(ret), where_of(f), fn=f.key)
            cp = [e for e in p.effects if e[0] == "call" and copy_of(e) is not None]
            cps = [copy_of(e) for e in cp]
            okc = len(cp) == 1 and cell(cps[0][0], last) and cell(cps[0][1], idx) and cps[0][2] == ("const", 1)
            R.check(okc, "C02-R3", "DataPtr::swap_remove|moves-last-into-hole", "copies exactly one cell from `len-1` into `index`",
                    "swap_remove copies %s; expected copy(src = cell len-1, dst = cell index, 1)" % [[show(x) for x in c_] for c_ in cps], where_of(f), fn=f.key)
            rd = [e for e in p.effects if e[0] == "call" and (cname(e[2]).endswith("ptr::read") or cname(e[2]).endswith("_ptr::read"))]
            if rd and cp:
                R.check(p.effects.index(rd[0]) < p.effects.index(cp[0]), "C02-R3", "DataPtr::swap_remove|read-before-copy", "the removed value is read before the hole is overwritten", "the copy precedes the read of the removed value", where_of(f), fn=f.key)
            dr = [e for e in p.effects if e[0] == "call" and (cname(e[2]).endswith(("drop_in_place", "mem::drop", "assume_init_drop", "ManuallyDrop::drop")) or cname(e[2]).split("::")[-1].startswith("drop"))] + [e for e in p.effects if e[0] == "drop" and e[6]]
            for rid_ in ("C04-R1", "C02-R3"):
                # (C02: the cell vacated by the move still holds the bits of the relocated entity's value: dropping it releases
                # what that entity goes on using; C04: together with the value handed to the caller that is a second drop)
                R.check(not dr, rid_, "DataPtr::swap_remove|no-drop", "the removed value is handed to the caller and the vacated cell is only forgotten: nothing is dropped here",
                        "swap_remove drops a value itself (%s): the removed value belongs to the caller and the vacated last cell is a bitwise copy of a live value" % sorted({cname(e[2]) if e[0] == "call" else "drop" for e in dr}), where_of(f), fn=f.key)
            stores = [e for e in p.effects if e[0] == "store" and e[5] == f.key]
            okst = all(cell(N(("call",) + () if False else e[1][1]), last) if e[1][0] == "deref" else False for e in stores)
            R.check(okst, "C02-R3", "DataPtr::swap_remove|only-marks-last", "besides the copy, only the vacated last cell is written (uninit marker)", "swap_remove also stores to %s" % [show(("load", NL(e[1]), 0))[:80] for e in stores], where_of(f), fn=f.key)
    f = fn("ptr_data")
    if f is not None:
        p = one(f, "ptr_data")
        if p is not None:
            R.check(is_base(N(p.ret)), "C06-R1", "DataPtr::ptr_data", "ptr_data = base pointer of the array", "ptr_data returns %s" % show(N(p.ret)), where_of(f), fn=f.key)


FORBIDDEN_CALLS = ("mem::forget", "ManuallyDrop::new", "Box::leak", "Ref::leak", "RefMut::leak", "Vec::leak", "RefCell::as_ptr", "RefCell::try_borrow_unguarded", "UnsafeCell::get", "UnsafeCell::raw_get",
                   "Rc::into_raw", "Box::into_raw", "mem::zeroed", "MaybeUninit::zeroed", "ptr::null_mut", "intrinsics::forget")


def rule_forbidden_calls(ctx, R):
    """C04-R7 / X-FORBID: expected count zero, with a positive fixture."""
    def scan(crate, label):
        n = 0
        for path, fn in sorted(crate.fns.items()):
            for b in fn.blocks:
                t = b["t"]
                if t["k"] != "call" or t["f"].get("indirect"):
                    continue
                n += 1
                cn = cname(t["f"]["path"])
                bad = [x for x in FORBIDDEN_CALLS if cn == x or cn.endswith("::" + x)]
                if bad:
                    R.fail("C04-R7", "%s|%s|%s" % (label, fn.short(), bad[0]), "%s calls %s: values must neither be forgotten/leaked nor reached around their RefCell" % (path, bad[0]), where_of(fn, t["s"]), fn=fn.key)
        return n
    n = scan(ctx.gecs, "gecs")
    if ctx.spec is not None:
        n += scan(ctx.spec, "expansion")
    R.check(n > 5000, "C04-R7", "forbidden-calls|scanned", "%d call sites scanned, none forbidden" % n, "only %d call sites scanned" % n, None)
    # positive fixture: the matcher recognises the forbidden names
    fixture = ["std::mem::forget", "std::mem::ManuallyDrop::<T>::new", "std::cell::Ref::<'b, T>::leak", "std::cell::RefCell::<T>::as_ptr"]
    hit = [p for p in fixture if any(cname(p) == x or cname(p).endswith("::" + x) for x in FORBIDDEN_CALLS)]
    R.check(len(hit) == len(fixture), "C04-R7", "forbidden-calls|fixture", "matcher fires on the positive fixture", "matcher misses %s" % [p for p in fixture if p not in hit], None)


# ----------------------------------------------------------------------------------
# C04-R6: no implicit drops of component values
# ----------------------------------------------------------------------------------
_WRAPPED = _re.compile(r"(?:std::cell::Ref(?:Mut)?<'_, [^<>]*(?:<[^<>]*>)?[^<>]*>|entity::Entity(?:Direct)?<[^<>]*>|std::marker::PhantomData<[^<>]*(?:<[^<>]*>)?[^<>]*>)")


_NONOWNING = _re.compile(r"(?:\*(?:mut|const) |&(?:'[a-z_]+ )?(?:mut )?|std::ptr::NonNull<)")


def component_bearing(ty, generics, adts=None, depth=0):
    """does a value of type `ty` (as printed by rustc) own a user component value?  Guards (Ref/RefMut), handles, raw pointers and
    references do not; a gecs-local struct does iff one of its fields does (judged on the declared field types)."""
    from .facts import strip_generics as _sg
    if adts is not None and depth < 3:
        head = bare_ty(ty)
        ad = adts.get(head)
        if ad is None:
            for k_, v_ in adts.items():
                if "<" in k_ and bare_ty(k_) == head:
                    ad = v_
                    break
        if ad is not None and "<" in ty:
            for v in ad.get("variants", []):
                for fld in v.get("fields", []):
                    fty = fld["ty"]
                    if _NONOWNING.match(fty) or fty.startswith("std::marker::PhantomData"):
                        continue
                    if component_bearing(fty, ad.get("params") or [], adts, depth + 1):
                        return True
            return False
    if _NONOWNING.match(ty):
        return False
    t = ty
    prev = None
    while prev != t:
        prev = t
        t = _WRAPPED.sub("_", t)
    if "::Components" in t:
        return True
    for gname in generics or []:
        if gname == "A":
            continue
        if _re.search(r"(?<![A-Za-z0-9_])%s(?![A-Za-z0-9_])" % _re.escape(gname), t):
            return True
    return False


def rule_implicit_drops(ctx, R):
    """C04-R6: inside gecs, compiler-inserted drops of component-bearing places are (a) never reached through a pointer or reference
    (that is how `*cell = value` shows up: the old value is dropped in place) and (b) only on unwind paths, where they release a by-value
    argument or a moved-out temporary of the interrupted call.  On normal paths a component value is either stored into a cell or handed
    back, never dropped by the library."""
    g = ctx.gecs
    n = 0
    for path, fn in sorted(g.fns.items()):
        gens = fn.d.get("generics") or []
        for b in fn.blocks:
            t = b["t"]
            if t["k"] != "drop" or not t.get("needs_drop", True):
                continue
            if not component_bearing(t["ty"], gens, g.adts):
                continue
            n += 1
            proj = t["p"]["p"]
            through = any(x == "*" for x in proj)
            fam = fn.short()
            if through:
                R.fail("C04-R6", "%s|through-pointer" % fam, "%s drops a place of type %s reached through a pointer or reference (an assignment through `*p` or an explicit in-place drop outside the dropper): the cell's old value is dropped while the storage still owns it" % (path, t["ty"]), where_of(fn, t["s"]), fn=fn.key)
            elif not b["cleanup"]:
                R.fail("C04-R6", "%s|normal-path" % fam, "%s drops a component-bearing value of type %s on a normal path: values moved into a world are stored or handed back, never dropped by the library" % (path, t["ty"]), where_of(fn, t["s"]), fn=fn.key)
            else:
                R.ok("C04-R6", "%s|cleanup-local" % fam, "unwind-path drop of a by-value local of type %s" % t["ty"], fn=fn.key)
    # positive fixture for the classifier
    fx = [("T", ["T"], True), ("(T0, T1)", ["A", "T0", "T1"], True), ("<A as traits::Archetype>::Components", ["A"], True), ("std::option::Option<D>", ["A", "D"], True),
          ("std::cell::Ref<'_, archetype::storage::DataPtr<T3>>", ["A", "T3"], False), ("std::vec::Vec<entity::Entity<A>>", ["A"], False)]
    bad = [f for f in fx if component_bearing(f[0], f[1]) != f[2]]
    R.check(not bad, "C04-R6", "implicit-drops|fixture", "classifier agrees with the fixture (%d drops of component-bearing places judged)" % n, "classifier disagrees on %s" % bad, None)


# ----------------------------------------------------------------------------------
# C04-R1 / C02-R3: allocation discipline of DataPtr (GlobalAlloc contract + "growth preserves the cells")
# ----------------------------------------------------------------------------------
ALLOC_FNS = ("alloc::alloc", "alloc::alloc_zeroed", "alloc::realloc", "alloc::dealloc")
MOVE_FNS = ("ptr::copy", "ptr::copy_nonoverlapping", "ptr::write_bytes", "ptr::swap", "ptr::swap_nonoverlapping", "mem::swap", "mem::replace", "ptr::replace",
            "_ptr::copy_to", "_ptr::copy_from", "_ptr::copy_to_nonoverlapping", "_ptr::copy_from_nonoverlapping", "_ptr::write_bytes", "_ptr::swap", "_ptr::replace")


def _nonzero(p, pred):
    """the branch conditions of path p imply X != 0 for an X with pred(X)"""
    for (a, pol) in branch_atoms(p):
        if a[0] != "cmp":
            continue
        op, x, y = a[1], a[2], a[3]
        if op == "Eq" and pol is False and ((y == ("const", 0) and pred(x)) or (x == ("const", 0) and pred(y))):
            return True
        if op == "Lt" and pol is True and x == ("const", 0) and pred(y):
            return True
        if op == "Le" and pol is False and y == ("const", 0) and pred(x):
            return True
        if op == "Le" and pol is True and x == ("const", 1) and pred(y):
            return True
        if op == "Lt" and pol is False and y == ("const", 1) and pred(x):
            return True
    return False


def _zero(p, pred):
    for (a, pol) in branch_atoms(p):
        if a[0] == "cmp" and a[1] == "Eq" and pol is True and ((a[3] == ("const", 0) and pred(a[2])) or (a[2] == ("const", 0) and pred(a[3]))):
            return True
        if a[0] == "cmp" and a[1] == "Le" and pol is True and a[3] == ("const", 0) and pred(a[2]):
            return True
        if a[0] == "cmp" and a[1] == "Lt" and pol is False and a[2] == ("const", 0) and pred(a[3]):
            return True
        if a[0] == "cmp" and a[1] == "Lt" and pol is True and a[3] == ("const", 1) and pred(a[2]):
            return True
    return False


def call_targs(f, e):
    """generic arguments of the call terminator behind a call effect"""
    if len(e) > 8 and isinstance(e[8], dict):
        return e[8].get("args") or []
    return None


def rule_alloc_discipline(ctx, R):
    g = ctx.gecs
    pref = "archetype::storage::DataPtr::<T>::"
    fns = [f for p_, f in sorted(g.fns.items()) if p_.startswith(pref) and f.kind == "AssocFn"]
    if len(fns) < 8:
        R.anchor_missing("methods of DataPtr<T> (found %d)" % len(fns))
        return
    # the layout helper: new_layout::<T>(c) = Layout::array::<T>(c).unwrap() (possibly after a size assertion)
    nl = g.fns.get("archetype::storage::new_layout")
    nl_ok = False
    if nl is not None:
        ps = [p for p in (ctx.paths(nl, ctx.ex_keep) or ()) if p.end == "return"]
        nl_ok = len(ps) >= 1 and all(is_call(N(p.ret), "unwrap") and is_call(N(p.ret)[2][0], "Layout::array") and N(p.ret)[2][0][2][0] == ("arg", 1) for p in ps)
        R.check(nl_ok, "C04-R1", "new_layout|is-array-layout", "new_layout::<T>(c) returns Layout::array::<T>(c).unwrap()", "new_layout returns %s" % [show(N(p.ret)) for p in ps], where_of(nl), fn=nl.key)

    def lay(v, cap):
        v = strip_epochs(v)
        if is_call(v, "new_layout") and nl_ok:
            return strip_epochs(v[2][0]) == cap
        if (is_call(v, "unwrap") or is_call(v, "expect") or is_call(v, "unwrap_unchecked")) and is_call(v[2][0], "Layout::array"):
            return strip_epochs(v[2][0][2][0]) == cap
        return False

    def is_sizeof(x):
        return is_call(x, "size_of")

    base0 = ("load", ("field", ("deref", SELF), "0"), 0)

    def is_base(v):
        v = strip_epochs(v)
        while v[0] == "cast":
            v = v[2]
        if is_call(v, "cast"):
            v = v[2][0]
        return is_call(v, "as_ptr") and strip_epochs(v[2][0]) == strip_epochs(base0)

    def through_resolve(v):
        v = strip_epochs(v)
        if is_call(v, "resolve_ptr"):
            return v[2][0]
        if is_call(v, "new_unchecked") or (is_call(v, "unwrap") and is_call(v[2][0], "NonNull::new")):
            x = v[2][0] if is_call(v, "new_unchecked") else v[2][0][2][0]
            while x[0] == "cast":
                x = x[2]
            return x
        return v

    n_alloc = 0
    for f in fns:
        name = f.path[len(pref):]
        ps = ctx.paths(f)
        if ps is None:
            R.fail("C04-R1", "DataPtr::%s|paths" % name, "path enumeration failed (fail closed)", where_of(f), fn=f.key)
            continue
        sig_args = {f.local_name(i): ("arg", i) for i in range(1, f.argc + 1)}
        cap = sig_args.get("capacity")
        oldcap = sig_args.get("old_capacity")
        for pi, p in enumerate(ps):
            if p.end != "return":
                continue
            calls = [e for e in p.effects if e[0] == "call" and e[4] == 0]
            allocs = [e for e in calls if any(cname(e[2]).endswith(a) for a in ALLOC_FNS)]
            moves = [e for e in calls if any(cname(e[2]).endswith(a) for a in MOVE_FNS)]
            self_stores = [e for e in p.effects if e[0] == "store" and e[5] == f.key and NL(e[1]) == ("field", ("deref", SELF), "0")]
            key = "DataPtr::%s" % name
            if not allocs:
                if name in ("grow", "dealloc"):
                    # a path that does not (re)allocate is legitimate only where there is nothing to allocate
                    trivial = _zero(p, is_sizeof) or (cap is not None and _zero(p, lambda x: strip_epochs(x) == cap))
                    R.check(trivial, "C04-R1", key + "|no-op-only-when-empty", "returns without touching the allocator only for zero-sized T or capacity 0",
                            "%s has a path that neither allocates nor frees although T is sized and the capacity is not zero (conditions: %s)" % (key, describe(branch_atoms(p))), where_of(f), fn=f.key)
                    if name == "grow":
                        R.check(not self_stores, "C04-R1", key + "|no-op-keeps-pointer", "the pointer is left alone on the no-op path", "the no-op path of grow overwrites the pointer", where_of(f), fn=f.key)
                if moves and name != "swap_remove":
                    R.fail("C02-R3", key + "|unexpected-move", "%s moves memory (%s) outside the reviewed primitives" % (key, [cname(e[2]) for e in moves]), where_of(f, moves[0][5]), fn=f.key)
                continue
            n_alloc += 1
            sized = _nonzero(p, is_sizeof)
            R.check(sized, "C04-R1", key + "|sized-T", "the allocator is only called for non-zero-sized T", "%s calls the allocator on a path that does not exclude size_of::<T>() == 0 (%s)" % (key, describe(branch_atoms(p))), where_of(f, allocs[0][5]), fn=f.key)
            kinds = [cname(e[2]).split("::")[-1] for e in allocs]
            by = {k: [e for e in allocs if cname(e[2]).endswith("alloc::" + k)] for k in ("alloc", "alloc_zeroed", "realloc", "dealloc")}
            fresh = by["alloc"] + by["alloc_zeroed"]
            newptr = None
            if fresh:
                e = fresh[0]
                ok = len(fresh) == 1 and cap is not None and lay(N(e[3][0]), cap) and _nonzero(p, lambda x: strip_epochs(x) == cap)
                R.check(ok, "C04-R1", key + "|alloc-layout", "allocates Layout::array::<T>(capacity) on a path with capacity != 0",
                        "%s allocates with layout %s under %s; expected the array layout of its `capacity` argument and capacity != 0" % (key, show(N(e[3][0])), describe(branch_atoms(p))), where_of(f, e[5]), fn=f.key)
                newptr = ("call",) + tuple(strip_epochs(("call", e[2], e[3], 0))[1:])
            if by["realloc"]:
                e = by["realloc"][0]
                a = [N(x) for x in e[3]]
                size_ok = cap is not None and is_call(strip_epochs(a[2]), "Layout::size") and lay(strip_epochs(a[2])[2][0][1] if strip_epochs(a[2])[2][0][0] == "refv" else strip_epochs(a[2])[2][0], cap)
                ok = len(by["realloc"]) == 1 and not fresh and oldcap is not None and is_base(a[0]) and lay(a[1], oldcap) and size_ok
                R.check(ok, "C02-R3", key + "|realloc-preserves", "realloc(self.0, Layout::array::<T>(old_capacity), size of Layout::array::<T>(capacity)): the old cells are carried over",
                        "%s reallocates with (%s); expected (self.0, array layout of old_capacity, byte size of the array layout of capacity)" % (key, ", ".join(show(x) for x in a)), where_of(f, e[5]), fn=f.key)
                R.check(_nonzero(p, lambda x: strip_epochs(x) == oldcap) and _nonzero(p, lambda x: strip_epochs(x) == cap), "C04-R1", key + "|realloc-only-allocated",
                        "realloc only on a path with old_capacity != 0 and capacity != 0", "%s reallocates on a path that does not exclude an unallocated (dangling) block or a zero size: %s" % (key, describe(branch_atoms(p))), where_of(f, e[5]), fn=f.key)
            if by["dealloc"]:
                e = by["dealloc"][0]
                a = [N(x) for x in e[3]]
                which = oldcap if (name == "grow" and oldcap is not None) else cap
                ok = len(by["dealloc"]) == 1 and which is not None and is_base(a[0]) and lay(a[1], which) and _nonzero(p, lambda x: strip_epochs(x) == which)
                R.check(ok, "C04-R1", key + "|dealloc-layout", "dealloc(self.0, Layout::array::<T>(the capacity it was allocated with)) on a path where that capacity != 0",
                        "%s frees with (%s) under %s; expected (self.0, array layout of the allocated capacity)" % (key, ", ".join(show(x) for x in a), describe(branch_atoms(p))), where_of(f, e[5]), fn=f.key)
            if name == "grow":
                # old cells must be carried over whenever there were any
                if not _zero(p, lambda x: strip_epochs(x) == oldcap):
                    carried = bool(by["realloc"])
                    if not carried and fresh and moves:
                        # alloc + copy + dealloc: the copy must cover old_capacity cells of T
                        for m in moves:
                            a = [strip_epochs(N(x)) for x in m[3]]
                            ta = call_targs(f, m)
                            cnt = a[2] if len(a) > 2 else None
                            if ta is None or cnt is None or not cname(m[2]).endswith(("ptr::copy", "ptr::copy_nonoverlapping")):
                                continue
                            typed = ta[:1] in (["T"], ["std::mem::MaybeUninit<T>"])
                            as_bytes = ta[:1] == ["u8"]
                            mul = cnt[0] == "bin" and cnt[1] == "Mul" and ((cnt[2] == oldcap and is_sizeof(cnt[3])) or (cnt[3] == oldcap and is_sizeof(cnt[2])))
                            lsz = is_call(cnt, "Layout::size") and lay(cnt[2][0][1] if cnt[2][0][0] == "refv" else cnt[2][0], oldcap)
                            if ((typed and cnt == oldcap) or (as_bytes and (mul or lsz))) and is_base(a[0]) and by["dealloc"]:
                                carried = True
                    # a path on which the fresh allocation is known to be null ends in handle_alloc_error, nothing to carry
                    if not carried and fresh and any(a_[0] == "bool" and is_call(strip_epochs(a_[1]), "is_null") and pol_ for (a_, pol_) in branch_atoms(p)):
                        continue
                    R.check(carried, "C02-R3", key + "|carries-old-cells", "growth from a non-empty block carries old_capacity cells of T into the new block",
                            "%s: on the path with old_capacity != 0 the old cells are not provably carried over (realloc with the old layout, or alloc + copy of old_capacity cells of T + dealloc); calls: %s" % (
                                key, [(cname(e[2]).split("::")[-1], [show(N(x))[:60] for x in e[3]]) for e in allocs + moves]), where_of(f), fn=f.key)
                R.check(len(self_stores) == 1, "C04-R1", key + "|installs-new-block", "the new block is installed in self.0 exactly once", "%d stores to self.0 on an allocating path of grow" % len(self_stores), where_of(f), fn=f.key)
                if self_stores:
                    v = through_resolve(N(self_stores[0][2]))
                    okv = any(is_call(v, k) for k in ("alloc::alloc", "alloc::alloc_zeroed", "alloc::realloc"))
                    R.check(okv, "C04-R1", key + "|installs-allocator-result", "self.0 <- the pointer the allocator returned (null-checked)", "grow installs %s" % show(v)[:160], where_of(f), fn=f.key)
            if name == "with_capacity":
                v = N(p.ret)
                inner = v[4][0][1] if v[0] == "agg" and v[4] else v
                inner = through_resolve(inner)
                R.check(any(is_call(inner, k) for k in ("alloc::alloc", "alloc::alloc_zeroed")), "C04-R1", key + "|returns-allocator-result", "returns the allocator's pointer (null-checked)", "with_capacity returns %s" % show(v)[:160], where_of(f), fn=f.key)
            if moves and not (name == "grow" and fresh):
                R.fail("C02-R3", key + "|unexpected-move", "%s moves memory (%s) outside the reviewed primitives" % (key, [cname(e[2]) for e in moves]), where_of(f, moves[0][5]), fn=f.key)
    R.check(n_alloc >= 4, "C04-R1", "alloc-paths|count", "%d allocating/freeing paths of DataPtr judged" % n_alloc, "only %d allocating paths found" % n_alloc, None)
    # who may call the allocator at all: DataPtr methods only
    for path, fn in sorted(g.fns.items()):
        if path.startswith(pref):
            continue
        for b in fn.blocks:
            t = b["t"]
            if t["k"] == "call" and not t["f"].get("indirect") and any(cname(t["f"]["path"]).endswith(a) for a in ALLOC_FNS):
                R.fail("C04-R1", "allocator-call|%s" % fn.short(), "%s calls %s: only DataPtr methods may talk to the allocator" % (path, cname(t["f"]["path"])), where_of(fn, t["s"]), fn=fn.key)


def describe(atoms):
    return " & ".join(show_atom(a) for a in atoms) or "true"


# ----------------------------------------------------------------------------------
# C02-R7 / C09-R8: what the StorageCanResolve impls do with the resolver's (slot, dense) pair
# ----------------------------------------------------------------------------------
def rule_payload_use(ctx, R):
    """The key resolvers return (slot index, dense index). Everything that reads data or mints a direct handle from that
    pair must use the *dense* component: resolve_for returns it (it indexes the columns), resolve_direct<Entity> packs it
    into the direct handle together with the archetype's current version. Slot and dense index coincide until a slot is
    recycled, so a mix-up passes every test that does not remove a non-last entity first."""
    n = 0
    for S in ctx.storages():
        for k, f in sorted(S.fns.items()):
            if not k.startswith("StorageCanResolve<") or not k.endswith(("::resolve_for", "::resolve_direct")):
                continue
            meth = k.split("::")[-1]
            keyty = k[len("StorageCanResolve<"):].split(">")[0]
            ps = ctx.paths(f)
            key = "%s::%s" % (S.name, k)
            if ps is None:
                R.fail("C02-R7", key + "|paths", "path enumeration failed (fail closed)", where_of(f), fn=f.key)
                continue
            some = [p for p in ps if p.end == "return" and N(p.ret)[0] == "agg" and N(p.ret)[3] == "Some"]
            judged = []   # (result value, components of the resolver's pair it uses)
            for p in some:
                judged.append((N(p.ret), None))
            if not some:
                # `self.resolve_x(key).map(|(slot, dense)| ..)`: the closure's parameter is the resolver's pair
                from .r_storage import closure_applications
                for (cf, pp, e, cps) in closure_applications(ctx, f):
                    if not (cname(e[2]).endswith(("Option::map", "Option::and_then")) and contains(N(e[3][0]), lambda t: t[0] == "call" and ("resolve_entity" in t[1] or "::resolve_direct" in t[1]))):
                        continue
                    for cp in cps or ():
                        if cp.end != "return":
                            continue
                        cret = N(cp.ret)
                        usedc = {x[2] for x in subterms(cret) if x[0] == "vfield" and x[1] == ("carg", 2)}
                        judged.append((cret, usedc))
            if not judged:
                R.fail("C02-R7", key + "|accepting-path", "no accepting path (Some(..) / .map(..) of the resolver's result) found", where_of(f), fn=f.key)
                continue
            for (ret, used_pre) in judged:
                used = set(used_pre) if used_pre is not None else set()
                for x in subterms(ret):
                    # (<resolver result> as Continue|Some).0.<K>  -- component K of the resolver's pair
                    if x[0] == "vfield" and x[1][0] == "vfield" and x[1][2] == "0" and x[1][1][0] == "vdown" and x[1][1][2] in ("Continue", "Some") \
                            and contains(x[1][1][1], lambda t: t[0] == "call" and ("resolve_entity" in t[1] or "::resolve_direct" in t[1])):
                        used.add(x[2])
                n += 1
                if keyty.startswith("EntityDirect") and meth == "resolve_direct":
                    # a direct key that resolves is returned as it is (nothing to mint)
                    ok = (contains(ret, lambda t: t == ("arg", 2)) or used_pre is not None and contains(ret, lambda t: t[0] in ("load", "ref") and "entity" in show(t))) and not used
                    R.check(ok, "C09-R8", key + "|returns-key", "a resolving direct key is returned unchanged", "resolve_direct for a direct key returns %s; expected the key itself" % show(ret)[:160], where_of(f), fn=f.key)
                    continue
                rid = "C09-R8" if meth == "resolve_direct" else "C02-R7"
                R.check(used == {"1"}, rid, key + "|uses-dense", "built from the dense component of the resolver's (slot, dense) pair only",
                        "%s builds its result from component(s) %s of the resolver's (slot, dense) pair; expected the dense index (.1) only: with a recycled slot the two differ and another entity is designated" % (key, sorted(used)), where_of(f), fn=f.key)
                if meth == "resolve_direct":
                    ver_ok = contains(ret, lambda t: t[0] == "load" and (NL(t[1]) == ("field", ("deref", SELF), "version") or (used_pre is not None and t[1][0] == "field" and t[1][2] == "version")))
                    R.check(ver_ok, "C09-R8", key + "|current-version", "the direct handle carries the archetype's current version", "the minted direct handle does not carry self.version: %s" % show(ret)[:160], where_of(f), fn=f.key)
    R.check(n >= 4, "C02-R7", "payload-use|count", "%d accepting paths of StorageCanResolve impls judged" % n, "only %d found" % n, None)
