"""C10: panic placement. A mutator's commit section (from its first state write to its
last) must not contain a point that may unwind."""
import json
import os

from .core import where_of, cname
from .norm import N, NL, atom, is_call, strip_generics
from .sym import show
from .r_storage import roles, own_calls, prim_name, SELF, floc, sf, receiver_array_any
from .cfg import is_panic_path

TABLES = os.path.join(os.path.dirname(os.path.dirname(os.path.dirname(os.path.abspath(__file__)))), "tables")


def load_table(name):
    with open(os.path.join(TABLES, name)) as f:
        return json.load(f)


_UNW = None


def unwind_table():
    global _UNW
    if _UNW is None:
        _UNW = load_table("unwind.json")
    return _UNW


def classify_std(path, callee):
    """'no' | 'may' | None(unknown) for a callee without analysable MIR."""
    t = unwind_table()
    full = strip_generics(path)
    # `<std::iter::Skip<I> as std::iter::Iterator>::next` -> `<std::iter::Skip as std::iter::Iterator>::next`
    import re
    prev = None
    while prev != full:
        prev = full
        full = re.sub(r"(?<=[A-Za-z0-9_])<[A-Za-z0-9_,' &:\[\]()]*>", "", full)
    cn = cname(path)
    if is_panic_path(path) or is_panic_path(full):
        return "may"
    for pat in t["nounwind"]:
        if cn == pat or full.endswith(pat):
            return "no"
    for pat in t["may_unwind"]:
        if cn == pat or full.endswith(pat):
            return "may"
    if callee is not None and callee.get("intrinsic"):
        return "no"
    return None


class Summaries:
    """may-unwind / writes summaries of local functions (fixpoint by memoised recursion)."""

    def __init__(self, ctx):
        self.ctx = ctx
        self.memo = {}

    def of(self, fn):
        k = fn.key
        if k in self.memo:
            return self.memo[k]
        self.memo[k] = {"unwind": [], "writes": False, "unknown": []}  # recursion guard (optimistic)
        ps = self.ctx.paths(fn)
        res = {"unwind": [], "writes": False, "unknown": []}
        if ps is None:
            res["unwind"].append("unanalysable body")
            res["writes"] = True
        else:
            for p in ps:
                for (i, kind, why, e) in classify_path(self.ctx, self, fn, p):
                    if kind == "U" and why not in res["unwind"]:
                        res["unwind"].append(why)
                    elif kind == "W":
                        res["writes"] = True
                    elif kind == "?" and why not in res["unknown"]:
                        res["unknown"].append(why)
        self.memo[k] = res
        return res


def is_state_loc(L):
    """A store target that is part of the representation: reached through a pointer (not a local)."""
    return L[0] != "local"


def const_true(cond):
    if cond[0] == "const":
        return bool(cond[1])
    if cond[0] == "bin" and cond[2][0] == "const" and cond[3][0] == "const":
        a, b = cond[2][1], cond[3][1]
        op = cond[1]
        try:
            return {"Lt": a < b, "Le": a <= b, "Gt": a > b, "Ge": a >= b, "Eq": a == b, "Ne": a != b}[op]
        except KeyError:
            return None
    return None


def classify_path(ctx, summ, fn, p, atomic=()):
    """Yield (index, kind, reason, effect) with kind in W (state write), U (may unwind), ? (unclassified callee).
    Inlined calls to functions in `atomic` are collapsed into a single W (they are judged on their own)."""
    out = []
    asserted = []
    skip_until = None
    for i, e in enumerate(p.effects):
        k = e[0]
        if skip_until is not None:
            if k == "ret" and e[1] == skip_until:
                skip_until = None
            continue
        if k == "call" and e[7] and e[2] in atomic:
            out.append((i, "W", "call %s (commit section judged separately)" % cname(e[2]), e))
            skip_until = e[1]
            continue
        if k == "store":
            out.append((i, "W", "store " + show(("load", NL(e[1]), 0))[:80], e))
        elif k == "setdiscr":
            out.append((i, "W", "set discriminant", e))
        elif k == "assert":
            cond = N(e[1])
            msg = e[2]
            if msg in ("MisalignedPointerDereference", "NullPointerDereference"):
                continue  # these abort (panic_nounwind), they never unwind
            if msg.startswith("Overflow"):
                continue  # overflow checks exist only with -C overflow-checks (debug profile): debug checks
            if const_true(cond):
                continue
            if cond in asserted:
                continue  # the same condition was already asserted on this path: cannot fail here
            asserted.append(cond)
            out.append((i, "U", "overflow/bounds assert %s on %s" % (msg, show(cond)[:80]), e))
        elif k == "drop":
            if e[6]:
                out.append((i, "U", "drop of %s (runs user Drop)" % e[2], e))
        elif k == "call":
            if e[7]:
                continue  # inlined: its body's effects follow
            path = e[2]
            callee = e[8]
            local = ctx.ex.table.lookup(callee) if callee and not callee.get("indirect") else None
            if callee and callee.get("indirect"):
                out.append((i, "U", "indirect call", e))
                continue
            if local is not None:
                s = summ.of(local)
                if s["writes"]:
                    out.append((i, "W", "call %s (writes state)" % cname(path), e))
                if s["unwind"]:
                    out.append((i, "U", "call %s may unwind: %s" % (cname(path), "; ".join(s["unwind"][:3])), e))
                for u in s["unknown"]:
                    out.append((i, "?", u, e))
                continue
            r = callee.get("resolved") if callee else None
            if callee and callee.get("trait") and not isinstance(r, dict):
                out.append((i, "U", "unresolved trait call %s (implemented outside gecs)" % cname(path), e))
                if writes_by_table(path):
                    out.append((i, "W", "call %s" % cname(path), e))
                continue
            c = classify_std(path, callee)
            if writes_by_table(path):
                out.append((i, "W", "call %s" % cname(path), e))
            if c == "may":
                out.append((i, "U", "call %s may unwind" % cname(path), e))
            elif c is None:
                out.append((i, "?", "unclassified callee %s" % path, e))
    return out


def writes_by_table(path):
    t = unwind_table()
    cn = cname(path)
    full = strip_generics(path)
    return any(cn == w or full.endswith(w) for w in t["writes"])


def exempt(role, why, e):
    import re
    why = re.sub(r"\b(Components|View|Slices)\d+\b", r"\1N", why)
    for x in unwind_table()["exemptions"]:
        if x["role"] in (role, "*") and x["match"] in why:
            return x
    return None


def rule_commit_sections(ctx, R):
    summ = Summaries(ctx)
    used = set()
    for S in ctx.storages():
        rl = roles(ctx, S)
        units = []
        for r in ("creator", "remover", "grower"):
            for f in rl[r]:
                if r == "creator" and not own_calls(f, ctx.paths(f), "DataPtr::write"):
                    continue
                if r == "remover" and not own_calls(f, ctx.paths(f), "DataPtr::swap_remove"):
                    continue
                units.append((r, f))
        # entry points that wrap them (push, push_within_capacity, resolve_destroy impls, destroy)
        cores = {f.key for _, f in units}
        for k, f in sorted(S.fns.items()):
            if f.key in cores:
                continue
            ps = ctx.paths(f)
            if ps is None:
                continue
            if any(e[0] == "call" and e[2] in {x.path for _, x in units} for p in ps for e in p.effects):
                units.append(("entry", f))
        growers = {f.path for f in rl["grower"]}
        for role, f in units:
            ps = ctx.paths(f)
            key = "%s::%s" % (S.name, f.path.split("::")[-1] if role != "entry" else [k for k, v in S.fns.items() if v is f][0])
            if ps is None:
                R.fail("SHAPE", key + "|paths", "path enumeration failed", where_of(f), fn=f.key)
                continue
            reported = set()
            for pi, p in enumerate(ps):
                cl = classify_path(ctx, summ, f, p, atomic={x.path for r2, x in units if r2 != "entry"} if role == "entry" else ())
                # a grower call whose result is false on this path performs no write (C10-R2 refuse-effect-free)
                false_grow = set()
                for c in p.conds:
                    a, t = atom(c)
                    if a[0] == "bool" and a[1][0] == "call" and a[1][1] in growers and not t:
                        false_grow.add(a[1][1])
                ws = [i for (i, k, why, e) in cl if k == "W" and not (e[0] == "call" and e[2] in false_grow)]
                if not ws:
                    R.ok("C10-R1", key + "|path#%d-no-write" % pi, None, nontrivial=False, fn=f.key)
                    continue
                first, last = min(ws), max(ws)
                diverges = isinstance(p.end, tuple) and p.end[0] == "diverge"
                for (i, k, why, e) in cl:
                    if k == "?" and first < i < last:
                        ident = key + "|unclassified(%s)" % why.split()[-1]
                        if ident not in reported:
                            reported.add(ident)
                            R.fail("C10-R1", ident, "%s inside the commit section of %s is not classified in tables/unwind.json (fail closed)" % (why, key), where_of(f, e[5]), fn=f.key)
                    if k != "U":
                        continue
                    inside = first < i < last or (diverges and i > first and i == len(p.effects) - 1)
                    if not inside:
                        continue
                    callee = cname(e[2]) if e[0] == "call" else e[0]
                    ident = "%s|%s" % (key, unwind_ident(e, why))
                    if ident in reported:
                        continue
                    reported.add(ident)
                    x = exempt(role, why, e)
                    if x is not None:
                        used.add(x["match"])
                        R.ok("C10-R1", ident + "|exempt", "may-unwind point inside the commit section is exempted: %s" % x["reason"], fn=f.key)
                        continue
                    wb = [w for (j, kk, w, _) in cl if kk == "W" and j < i][-1]
                    wa = [w for (j, kk, w, _) in cl if kk == "W" and j > i]
                    R.fail("C10-R1", ident,
                           "%s lies inside the commit section of %s: it comes after state write `%s`%s. A panic here unwinds out of a half-updated storage." % (
                               why, key, wb, (" and before `%s`" % wa[0]) if wa else " (panic path after the first write)"),
                           where_of(f, e[5] if e[0] == "call" else e[4]), fn=f.key)
                R.ok("C10-R1", key + "|path#%d" % pi, "commit section scanned: %d effects, %d writes, %d may-unwind points classified" % (len(p.effects), len(ws), len([1 for x in cl if x[1] == "U"])), fn=f.key)
    # C10-R4: borrow-conflict panics only in functions without write effect on the representation
    for S in ctx.storages():
        for k, f in sorted(S.fns.items()):
            ps = ctx.paths(f)
            if ps is None:
                continue
            has_borrow = any(e[0] == "call" and e[6] == f.key and (cname(e[2]).endswith("RefCell::borrow") or cname(e[2]).endswith("RefCell::borrow_mut")) for p in ps for e in p.effects)
            if not has_borrow:
                continue
            w = [e for p in ps for e in p.effects if e[0] == "store" and e[5] == f.key and receiver_array_any(("load", e[1], 0)) is not None]
            R.check(not w, "C10-R4", "%s::%s|borrow-in-reader" % (S.name, k), "runtime borrows only in functions that do not write the representation",
                    "%s both takes a runtime borrow (may panic) and writes self" % k, where_of(f), fn=f.key)


def unwind_ident(e, why):
    if e[0] == "call":
        s = cname(e[2])
        # distinguish the two generation bumps by their documented message
        for a in e[3]:
            if isinstance(a, tuple) and a and a[0] == "str":
                s += "(%s)" % a[1]
        return s
    if e[0] == "assert":
        return "assert(%s)" % e[2]
    if e[0] == "drop":
        return "drop(%s)" % e[2]
    return e[0]


# ----------------------------------------------------------------------------------
# C10-R6: no droppable, partially built storage while user code runs in clone
# ----------------------------------------------------------------------------------
def rule_clone_unwind(ctx, R):
    """Clone::clone calls user code (T::clone) while the copy is under construction. The arrays are raw DataPtr
    buffers without Drop, so a panic there leaks the partial copy and is otherwise harmless. If a *Storage* value
    (which has Drop, and drops cells [0, len) of every column) is alive across such a call, its len must never
    count a row whose cells are not all written: judged on the unwind edges (which locals get dropped) and on the
    order of the len store and the user calls within one iteration."""
    for S in ctx.storages():
        cs = roles(ctx, S)["cloner"]
        if len(cs) != 1:
            continue
        f = cs[0]
        key = "%s::clone" % S.name
        pairs = []
        for bi, b in enumerate(f.blocks):
            t = b["t"]
            if t["k"] != "call" or not isinstance(t.get("u"), int):
                continue
            callee = t["f"]
            if not callee.get("indirect"):
                loc = ctx.gecs.lookup(callee)
                if loc is None and classify_std(callee["path"], callee.get("resolved") if isinstance(callee.get("resolved"), dict) else None) == "no":
                    continue
            seen, stack, dropped = set(), [t["u"]], []
            while stack:
                x = stack.pop()
                if x in seen:
                    continue
                seen.add(x)
                tt = f.blocks[x]["t"]
                if tt["k"] == "drop" and tt["ty"].startswith(S.path + "<"):
                    dropped.append(x)
                for k2 in ("t", "u"):
                    if isinstance(tt.get(k2), int):
                        stack.append(tt[k2])
                if tt["k"] == "switch":
                    stack.extend([bb for _, bb in tt["ts"]] + [tt["o"]])
            if dropped:
                pairs.append((bi, callee.get("path", "indirect call"), t["s"]))
        if not pairs:
            R.ok("C10-R6", key + "|no-droppable-partial", "no value of the storage type is dropped on any unwind path of clone: a panic in a user Clone leaks the partial copy and drops no unwritten cell", fn=f.key)
            continue
        # a storage value is alive across may-unwind calls: its len may only count completely written rows
        ps = ctx.paths(f)
        bad = None
        if ps is None:
            bad = "path enumeration failed"
        else:
            n_len_stores = 0
            for p in ps:
                marks = [i for i, e in enumerate(p.effects) if e[0] == "loop"]
                seg = p.effects[marks[-1]:] if marks else p.effects
                first_len = None
                for i, e in enumerate(seg):
                    if e[0] == "store" and e[5] == f.key:
                        L = NL(e[1])
                        if L[0] == "field" and L[2] == "len" and L[1] != ("deref", ("arg", 1)):
                            n_len_stores += 1
                            if first_len is None:
                                first_len = i
                if first_len is None:
                    continue
                for e in seg[first_len + 1:]:
                    if e[0] == "call" and e[4] == 0:
                        loc = ctx.gecs.lookup(e[8]) if len(e) > 8 and isinstance(e[8], dict) else None
                        std_no = loc is None and classify_std(e[2], None) == "no"
                        if not std_no and (cname(e[2]).endswith("Clone::clone") or loc is None):
                            bad = "the copy's len is advanced before `%s` runs in the same iteration: if it panics, Drop visits a row whose cells were never written" % cname(e[2])
                            break
                if bad:
                    break
            if bad is None and n_len_stores == 0:
                bad = "a storage value with its final len is alive while user Clone code runs (%s): if that panics, Drop visits rows that were never written" % pairs[0][1]
        R.check(bad is None, "C10-R6", key + "|droppable-partial-consistent", "the partially built storage only ever counts completely written rows",
                "%s: %s" % (key, bad), where_of(f, pairs[0][2]), fn=f.key)
