"""Path-wise symbolic evaluation of MIR bodies (no solver: expressions are compared
structurally after normalisation).

For a function the executor enumerates the normal (non-cleanup) paths of the pruned,
back-edge-cut CFG and yields for each a `Path` with
  conds    [(value, taken, kind, span)]   kind in {'branch','assume'}
  effects  ordered list of Effect tuples (calls, stores, drops)
  ret      symbolic return value (for paths ending in Return)
  end      'return' | ('diverge', callee) | ('backedge', header) | 'unreachable'

Local, loop-free, single-path callees found in the function table are inlined (their
stores and calls appear in the caller's effect list with depth+1), which is what makes
accessor calls (`self.len()`), field reads and helper extraction indistinguishable.
"""
import re
from . import cfg as cfgmod
from .cfg import Cfg, callee_path

MAX_PATHS = 6000
MAX_DEPTH = 8


class TooManyPaths(Exception):
    pass


# ----------------------------------------------------------------------------------
# locations
# ----------------------------------------------------------------------------------
def loc_base(L):
    k = L[0]
    if k in ("field", "downcast", "index", "cindex"):
        return L[1]
    return None


def loc_chain(L):
    """L and all its syntactic prefixes; continues through deref(load(L2))."""
    out = []
    cur = L
    while cur is not None:
        out.append(cur)
        k = cur[0]
        if k in ("field", "downcast", "index", "cindex"):
            cur = cur[1]
        elif k == "deref":
            v = cur[1]
            if isinstance(v, tuple) and v and v[0] == "load":
                cur = v[1]
            elif isinstance(v, tuple) and v and v[0] == "ref":
                cur = v[1]
            else:
                cur = None
        else:
            cur = None
    return out


def is_heap(L):
    for x in loc_chain(L):
        if x[0] == "deref":
            return True
    return False


def is_derived(L):
    ch = loc_chain(L)
    root = ch[-1]
    return root[0] == "deref" and not (isinstance(root[1], tuple) and root[1] and root[1][0] == "arg")


def project_value(V, proj):
    """Apply a projection to a *value*."""
    kind = proj[0]
    if kind == "field":
        name, idx = proj[1], proj[2]
        if V[0] == "agg":
            fields = V[4]
            for (fname, fv) in fields:
                if fname == name:
                    return fv
            if idx is not None and idx < len(fields):
                return fields[idx][1]
        if V[0] == "vdown" and V[1][0] == "agg":
            fields = V[1][4]
            for (fname, fv) in fields:
                if fname == name:
                    return fv
            if idx is not None and idx < len(fields):
                return fields[idx][1]
        if V[0] == "load":
            return ("load", ("field", V[1], name), V[2])
        return ("vfield", V, name)
    if kind == "downcast":
        if V[0] == "load":
            return ("load", ("downcast", V[1], proj[1]), V[2])
        return ("vdown", V, proj[1])
    if kind == "index":
        if V[0] == "load":
            return ("load", ("index", V[1], proj[1]), V[2])
        return ("vindex", V, proj[1])
    if kind == "cindex":
        if V[0] == "load":
            return ("load", ("cindex", V[1], proj[1], proj[2]), V[2])
        return ("vcindex", V, proj[1], proj[2])
    raise ValueError(proj)


class Effect(tuple):
    pass


class Path:
    __slots__ = ("conds", "effects", "ret", "end", "blocks", "store", "events")

    def __init__(self):
        self.conds = []
        self.effects = []
        self.ret = None
        self.end = None
        self.blocks = []
        self.store = None
        self.events = 0

    def calls(self, pred=None):
        out = []
        for e in self.effects:
            if e[0] == "call" and (pred is None or pred(e)):
                out.append(e)
        return out

    def stores(self):
        return [e for e in self.effects if e[0] == "store"]


class State:
    __slots__ = ("store", "havocs", "conds", "effects", "blocks", "eid", "loops", "frozen")

    def __init__(self):
        self.frozen = frozenset()
        self.store = {}
        self.havocs = []  # (prefix location or ('heap',), event id)
        self.conds = []
        self.effects = []
        self.blocks = []
        self.eid = 0
        self.loops = ()

    def clone(self):
        s = State()
        s.store = dict(self.store)
        s.havocs = list(self.havocs)
        s.conds = list(self.conds)
        s.effects = list(self.effects)
        s.blocks = list(self.blocks)
        s.eid = self.eid
        s.loops = self.loops
        s.frozen = self.frozen
        return s

    def epoch(self, L):
        chain = loc_chain(L)
        heap = any(x[0] == "deref" for x in chain)
        if heap and self.frozen:
            root = chain[-1]
            if root[0] == "deref" and root[1] in self.frozen:
                heap = False  # behind a shared reference parameter: nobody may write it
        e = 0
        cs = set(chain)
        derived = False
        if heap:
            root = chain[-1]
            derived = root[0] == "deref" and not (isinstance(root[1], tuple) and root[1] and root[1][0] == "arg")
        for (P, ev) in self.havocs:
            if P == ("heap",):
                if heap and ev > e:
                    e = ev
            elif P == ("heapx",):
                if derived and ev > e:
                    e = ev
            elif P in cs:
                if ev > e:
                    e = ev
            else:
                # L is a prefix of P (reading an aggregate part of which was havocked)
                for x in loc_chain(P):
                    if x == L:
                        if ev > e:
                            e = ev
                        break
        return e

    def read(self, L):
        st = self.store
        if L in st:
            return st[L]
        # nearest syntactic prefix with a store entry
        projs = []
        cur = L
        while True:
            b = loc_base(cur)
            if b is None:
                break
            k = cur[0]
            if k == "field":
                projs.append(("field", cur[2], None))
            elif k == "downcast":
                projs.append(("downcast", cur[2]))
            elif k == "index":
                projs.append(("index", cur[2]))
            elif k == "cindex":
                projs.append(("cindex", cur[2], cur[3]))
            cur = b
            if cur in st:
                V = st[cur]
                for p in reversed(projs):
                    V = project_value(V, p)
                return V
        root = cur
        if root[0] == "local":
            e = self.epoch(L)
            if e == 0:
                return ("undef", root[2])
            return ("load", L, e)
        # heap location without a store entry: normalise field keys (drop index hint)
        return ("load", canon_loc(L), self.epoch(L))

    def write(self, L, V):
        st = self.store
        # drop entries below L
        dead = [k for k in st if k != L and L in loc_chain(k)[1:]]
        for k in dead:
            del st[k]
        st[L] = V
        # functional update of an aggregate stored at a strict prefix
        b = loc_base(L)
        if b is not None and b in st and st[b][0] == "agg" and L[0] == "field":
            agg = st[b]
            fields = list(agg[4])
            for i, (fname, fv) in enumerate(fields):
                if fname == L[2]:
                    fields[i] = (fname, V)
            st[b] = (agg[0], agg[1], agg[2], agg[3], tuple(fields))

    def havoc(self, P, ev):
        st = self.store
        dead = [k for k in st if P in loc_chain(k)]
        for k in dead:
            del st[k]
        self.havocs.append((P, ev))

    def havoc_heap(self, ev):
        st = self.store
        dead = [k for k in st if is_heap(k)]
        for k in dead:
            del st[k]
        self.havocs.append((("heap",), ev))


def canon_loc(L):
    k = L[0]
    if k == "field":
        return ("field", canon_loc(L[1]), L[2])
    if k == "downcast":
        return ("downcast", canon_loc(L[1]), L[2])
    if k == "index":
        return ("index", canon_loc(L[1]), L[2])
    if k == "cindex":
        return ("cindex", canon_loc(L[1]), L[2], L[3])
    return L


def is_mut_ptr_ty(ty):
    return ty.startswith("&mut ") or ty.startswith("*mut ") or ty.startswith("&'") and " mut " in ty.split(" ", 2)[1:2]


_FAM_RX = None


def fam_name(path):
    """family name of a function: generics dropped, StorageN / BorrowN / IterN and _<i> suffixes folded"""
    global _FAM_RX
    import re
    from .facts import strip_generics
    p = strip_generics(path)
    p = re.sub(r"\b(Storage|Borrow|IterMut|Iter|Components|View|Slices)\d+\b", r"\1N", p)
    p = re.sub(r"_(\d+)(::|$)", r"_I\2", p)
    return p


class Executor:
    def __init__(self, table, debug="skip", inline=True, max_paths=MAX_PATHS):
        self.table = table
        self.debug = debug
        self.inline = inline
        self.max_paths = max_paths
        self._cfgs = {}
        self._inlinable = {}
        self._frame = 0
        self.watch = ()  # locations whose current value is snapshotted at every call effect
        # helper functions the rules do not know by name (not in this set of family names) are seen through even
        # when they branch: each of their returning paths continues the caller (None = feature off)
        self.known_fns = None
        self._multi = {}

    def cfg(self, fn):
        c = self._cfgs.get(fn.key)
        if c is None:
            c = Cfg(fn, self.debug)
            self._cfgs[fn.key] = c
        return c

    def inlinable(self, fn):
        r = self._inlinable.get(fn.key)
        if r is not None:
            return r
        c = self.cfg(fn)
        ok = True
        if c.backedges():
            ok = False
        else:
            for b in c.reach:
                if b in c.doomed:
                    continue
                live = [s for s in c.succ[b] if s not in c.doomed]
                if len(set(live)) > 1:
                    ok = False
                    break
                t = fn.blocks[b]["t"]
                if t["k"] in ("other", "tailcall"):
                    ok = False
                    break
        self._inlinable[fn.key] = ok
        return ok

    def multi_ok(self, fn):
        """a small loop-free local function that branches, and that no rule addresses by name: inline it path by path"""
        if self.known_fns is None:
            return False
        r = self._multi.get(fn.key)
        if r is not None:
            return r
        ok = False
        if fn.kind in ("Fn", "AssocFn") and fam_name(fn.path) not in self.known_fns:
            c = self.cfg(fn)
            if not c.backedges() and len(fn.blocks) <= 60:
                nsw = 0
                bad = False
                for b in c.reach:
                    if b in c.doomed:
                        continue
                    live = [s_ for s_ in c.succ[b] if s_ not in c.doomed]
                    if len(set(live)) > 1:
                        nsw += 1
                    if fn.blocks[b]["t"]["k"] in ("other", "tailcall"):
                        bad = True
                ok = (not bad) and 1 <= nsw <= 3
        self._multi[fn.key] = ok
        return ok

    # ------------------------------------------------------------------ evaluation
    def const(self, k):
        if "fn" in k:
            return ("fn", k["fn"], tuple(k.get("args", ())))
        if "v" in k:
            v = k["v"]
            if k.get("ty") == "bool":
                v = bool(v)
            if "uneval" in k:
                return ("const", v, k["uneval"])
            return ("const", v)
        if "uneval" in k:
            return ("uneval", k["uneval"], tuple(k.get("uargs", ())))
        if "str" in k:
            return ("str", k["str"])
        return ("k", k.get("ty", ""), k.get("dbg", ""))

    def place_loc(self, st, fid, pl):
        L = ("local", fid, pl["l"])
        for pr in pl["p"]:
            if pr == "*":
                V = st.read(L)
                L = deref_loc(V)
            elif "f" in pr:
                L = ("field", L, pr["n"])
            elif "dc" in pr:
                L = ("downcast", L, pr["dc"] or pr["vi"])
            elif "i" in pr:
                L = ("index", L, st.read(("local", fid, pr["i"])))
            elif "ci" in pr:
                L = ("cindex", L, pr["ci"], pr["end"])
            elif "sub" in pr:
                L = ("field", L, "subslice%d_%d" % (pr["sub"], pr["to"]))
            else:
                L = ("field", L, "opaque")
        return L

    def operand(self, st, fid, op):
        if "c" in op:
            return st.read(self.place_loc(st, fid, op["c"]))
        if "m" in op:
            return st.read(self.place_loc(st, fid, op["m"]))
        if "k" in op:
            return self.const(op["k"])
        return ("k", "rt", op.get("rt", ""))

    def rvalue(self, st, fid, rv):
        k = rv["k"]
        if k == "use":
            return self.operand(st, fid, rv["a"])
        if k in ("ref", "rawptr"):
            L = self.place_loc(st, fid, rv["p"])
            if L[0] == "deref":
                return L[1]  # &*p == p
            return ("ref", canon_loc(L) if is_heap(L) else L)
        if k == "cast":
            a = self.operand(st, fid, rv["a"])
            if rv["ck"] == "IntToInt" and a[0] == "const" and type(a[1]) is int and len(a) == 2:
                bits = {"u8": 8, "u16": 16, "u32": 32, "u64": 64, "usize": 64, "i8": 8, "i16": 16, "i32": 32, "i64": 64, "isize": 64}.get(rv["ty"])
                if bits and rv["ty"].startswith("u") and a[1] >= 0:
                    return ("const", a[1] & ((1 << bits) - 1))
            return ("cast", rv["ck"], a, rv["ty"])
        if k == "bin":
            a, b = self.operand(st, fid, rv["a"]), self.operand(st, fid, rv["b"])
            op = rv["op"]
            if a[0] == "const" and b[0] == "const" and type(a[1]) in (int, bool) and type(b[1]) in (int, bool) and len(a) == 2 and len(b) == 2:
                x, y = int(a[1]), int(b[1])
                fold = {"Eq": x == y, "Ne": x != y, "Lt": x < y, "Le": x <= y, "Gt": x > y, "Ge": x >= y}
                if op in fold:
                    return ("const", fold[op])
                if op in ("Add", "AddUnchecked") and 0 <= x + y < 2 ** 64:
                    return ("const", x + y)
                if op in ("Sub", "SubUnchecked") and x - y >= 0:
                    return ("const", x - y)
                if op == "AddWithOverflow" and 0 <= x + y < 256:
                    return ("agg", "tuple", None, None, (("0", ("const", x + y)), ("1", ("const", False))))
            return ("bin", op, a, b)
        if k == "un":
            return ("un", rv["op"], self.operand(st, fid, rv["a"]))
        if k == "discr":
            V = st.read(self.place_loc(st, fid, rv["p"]))
            if V[0] == "agg" and V[1] == "adt":
                return ("const", V[5] if len(V) > 5 else 0)
            return ("discr", V)
        if k == "agg":
            ak = rv["ak"]
            ops = [self.operand(st, fid, o) for o in rv["ops"]]
            if ak == "adt":
                names = rv["fields"]
                fields = tuple((names[i] if i < len(names) else str(i), v) for i, v in enumerate(ops))
                return ("agg", "adt", rv["adt"], rv["variant"], fields, rv["vi"])
            if ak == "closure":
                return ("agg", "closure", rv["def"], None, tuple((str(i), v) for i, v in enumerate(ops)))
            return ("agg", ak, None, None, tuple((str(i), v) for i, v in enumerate(ops)))
        if k == "repeat":
            return ("repeat", self.operand(st, fid, rv["a"]), rv["n"])
        return ("k", "rv", rv.get("dbg", k))

    # ------------------------------------------------------------------ driver
    def run(self, fn, args=None, pre_store=None, frozen=None, fid=0):
        """Enumerate paths of `fn`. Returns list[Path]."""
        st = State()
        self._frame = fid
        if pre_store:
            st.store.update(pre_store)
        fr = set(frozen or ())
        for i in range(1, fn.argc + 1):
            st.store[("local", fid, i)] = args[i - 1] if args else ("arg", i)
            ty = fn.local_ty(i)
            if not args and ty.startswith("&") and not is_mut_ptr_ty(ty):
                fr.add(("arg", i))
        st.frozen = frozenset(fr)
        out = []
        self._count = 0
        self._exec(fn, fid, 0, st, 0, out, None)
        return out

    def _finish(self, st, end, ret, out):
        p = Path()
        p.conds = st.conds
        p.effects = st.effects
        p.blocks = st.blocks
        p.ret = ret
        p.end = end
        p.store = st.store
        p.events = st.eid
        out.append(p)
        self._count += 1
        if self._count > self.max_paths:
            raise TooManyPaths()

    def _exec(self, fn, fid, bb, st, depth, out, cont):
        """Execute from block bb. `cont` is None for the top frame; for inlined frames it is
        a callable (state, retval) invoked at Return (inlined callees are single-path)."""
        c = self.cfg(fn)
        blocks = fn.blocks
        backedges = c.backedges()
        headers = set(h for (_, h) in backedges)
        while True:
            if depth == 0:
                st.blocks.append(bb)
            if bb in headers and (fid, bb) not in st.loops:
                # entering a loop: havoc loop-carried state
                st.loops = st.loops + ((fid, bb),)
                self._enter_loop(fn, c, fid, bb, st)
            b = blocks[bb]
            for s in b["st"]:
                sk = s["k"]
                if sk == "assign":
                    V = self.rvalue(st, fid, s["rv"])
                    L = self.place_loc(st, fid, s["p"])
                    st.write(L, V)
                    if L[0] != "local":
                        st.effects.append(("store", canon_loc(L), V, depth, s["s"], fn.key))
                        if is_derived(L):
                            st.eid += 1
                            self._heapx(st, L, st.eid, depth)
                elif sk == "setdiscr":
                    L = self.place_loc(st, fid, s["p"])
                    st.effects.append(("setdiscr", canon_loc(L), s["vi"], depth, s["s"], fn.key))
                elif sk == "intrinsic":
                    ops = [self.operand(st, fid, o) for o in s["ops"]]
                    st.effects.append(("intrinsic", s["name"], tuple(ops), depth, s["s"], fn.key))
            t = b["t"]
            k = t["k"]
            if k == "goto":
                nxt = t["t"]
            elif k == "switch":
                nxt = self._switch(fn, c, fid, bb, t, st, depth, out, cont)
                if nxt is None:
                    return
            elif k == "return":
                ret = st.read(("local", fid, 0))
                if cont is not None:
                    cont(st, ret)
                    return
                self._finish(st, "return", ret, out)
                return
            elif k == "unreachable":
                if cont is None or getattr(cont, 'fork_ok', False):
                    self._finish(st, "unreachable", None, out)
                return
            elif k in ("resume", "terminate"):
                if cont is None or getattr(cont, 'fork_ok', False):
                    self._finish(st, k, None, out)
                return
            elif k == "drop":
                L = self.place_loc(st, fid, t["p"])
                st.eid += 1
                st.effects.append(("drop", canon_loc(L) if L[0] != "local" else L, t["ty"], depth, t["s"], fn.key, t["needs_drop"], st.read(L), st.eid))
                nxt = t["t"]
            elif k == "assert":
                V = self.operand(st, fid, t["c"])
                st.conds.append((V, (1 if t["e"] else 0,), "assert:" + t["msg"], t["s"], len(st.effects)))
                st.effects.append(("assert", V, t["msg"], depth, t["s"], fn.key))
                nxt = t["t"]
            elif k == "call":
                nxt = self._call(fn, c, fid, bb, t, st, depth, out, cont)
                if nxt is None:
                    return
            else:
                st.effects.append(("other", t.get("dbg", k), None, depth, t.get("s"), fn.key))
                if cont is None or getattr(cont, 'fork_ok', False):
                    self._finish(st, ("other", k), None, out)
                return
            if (bb, nxt) in backedges:
                if cont is None or getattr(cont, 'fork_ok', False):
                    self._finish(st, ("backedge", nxt), None, out)
                return
            bb = nxt

    def _enter_loop(self, fn, c, fid, header, st):
        """Havoc what the loop body may change before its (arbitrary) iteration starts:
        locals assigned in the body become loop variables; memory reachable from mutable
        pointers handed to calls in the body (or stored through) is havocked at the
        location those pointers denote at loop entry -- not the whole heap."""
        body = c.loop_body(header)
        assigned = set()
        defs = {}
        for x in body:
            b = fn.blocks[x]
            for s in b["st"]:
                if s["k"] == "assign":
                    pl = s["p"]
                    if "*" not in pl["p"]:
                        assigned.add(pl["l"])
                        if not pl["p"]:
                            defs.setdefault(pl["l"], []).append(s["rv"])
                    rv = s["rv"]
                    if rv["k"] in ("ref", "rawptr") and rv.get("mut") and "*" not in rv["p"]["p"]:
                        assigned.add(rv["p"]["l"])
            t = b["t"]
            if t["k"] == "call":
                pl = t["d"]
                if "*" not in pl["p"]:
                    assigned.add(pl["l"])
                    if not pl["p"]:
                        defs.setdefault(pl["l"], []).append(None)

        def place_ok(pl):
            if pl["l"] in assigned:
                return False
            for pr in pl["p"]:
                if isinstance(pr, dict) and "i" in pr and pr["i"] in assigned:
                    return False
            return True

        def resolve_ptr(local, depth=0):
            """pointer value a (possibly loop-local) pointer temp denotes, in entry-state terms"""
            if local not in assigned:
                return st.read(("local", fid, local))
            ds = defs.get(local, [])
            if len(ds) != 1 or ds[0] is None or depth > 5:
                return None
            rv = ds[0]
            if rv["k"] in ("ref", "rawptr"):
                pl = rv["p"]
                if place_ok(pl):
                    return self.rvalue(st, fid, rv)
                # reborrow `&mut (*q).proj...` of another loop-local pointer q
                if pl["p"] and pl["p"][0] == "*" and not any(isinstance(pr, dict) and "i" in pr and pr["i"] in assigned for pr in pl["p"]):
                    base = resolve_ptr(pl["l"], depth + 1)
                    if base is None:
                        return None
                    L = deref_loc(base)
                    for pr in pl["p"][1:]:
                        if pr == "*":
                            L = deref_loc(st.read(L))
                        elif "f" in pr:
                            L = ("field", L, pr["n"])
                        elif "dc" in pr:
                            L = ("downcast", L, pr["dc"] or pr["vi"])
                        elif "i" in pr:
                            L = ("index", L, st.read(("local", fid, pr["i"])))
                        else:
                            return None
                    if L[0] == "deref":
                        return L[1]
                    return ("ref", canon_loc(L) if is_heap(L) else L)
                return None
            if rv["k"] in ("use", "cast"):
                a = rv["a"]
                pl = a.get("m") or a.get("c")
                if pl is not None and not pl["p"]:
                    return resolve_ptr(pl["l"], depth + 1)
                if pl is not None and place_ok(pl):
                    return self.operand(st, fid, a)
            return None

        targets = []  # pointer values (or None = unknown derived pointer)
        for x in body:
            b = fn.blocks[x]
            for s in b["st"]:
                if s["k"] == "assign" and "*" in s["p"]["p"]:
                    pl = s["p"]
                    i = pl["p"].index("*")
                    if i == 0:
                        targets.append(resolve_ptr(pl["l"]))
                    else:
                        targets.append(None)
            t = b["t"]
            if t["k"] == "call":
                if "*" in t["d"]["p"]:
                    targets.append(resolve_ptr(t["d"]["l"]) if t["d"]["p"][0] == "*" else None)
                for a in t["args"]:
                    p = a.get("m") or a.get("c")
                    if p is None:
                        continue
                    ty = self._operand_ty(fn, p)
                    if ty is not None and is_mut_ptr_ty(ty):
                        if not p["p"]:
                            targets.append(resolve_ptr(p["l"]))
                        elif place_ok(p):
                            targets.append(self.operand(st, fid, a))
                        else:
                            targets.append(None)
        st.eid += 1
        ev = st.eid
        for l in sorted(assigned):
            L = ("local", fid, l)
            init = st.store.get(L)
            dead = [k for k in st.store if L in loc_chain(k)]
            for k in dead:
                del st.store[k]
            st.store[L] = ("loopvar", header, l, init)
        unknown = False
        seen = set()
        for V in targets:
            if V is None:
                unknown = True
                continue
            if V in seen:
                continue
            seen.add(V)
            if V[0] == "ref":
                if V[1][0] == "local" and V[1][1] == fid and V[1][2] in assigned:
                    continue
                st.havoc(V[1], ev)
                st.effects.append(("havoc", canon_loc(V[1]), ev, 0))
            else:
                st.havoc(("deref", V), ev)
                st.effects.append(("havoc", ("deref", V), ev, 0))
                if not (V and V[0] == "arg"):
                    unknown = True
        if unknown:
            self._heapx(st, None, ev, 0)
        st.effects.append(("loop", header, tuple(sorted(assigned)), 0, None, fn.key))

    def _switch(self, fn, c, fid, bb, t, st, depth, out, cont):
        if bb in c.const_taken:
            return c.const_taken[bb][1]
        V = self.operand(st, fid, t["d"])
        groups = {}
        allvals = tuple(v for v, _ in t["ts"])
        for v, tgt in t["ts"]:
            groups.setdefault(tgt, []).append(v)
        other = t["o"]
        entries = []
        for tgt, vals in groups.items():
            if tgt == other:
                continue
            entries.append((tgt, tuple(vals)))
        entries.append((other, ("not",) + tuple(v for v, tg in t["ts"] if tg != other)))
        live = [(tgt, vals) for (tgt, vals) in entries if tgt not in c.doomed]
        dead = [(tgt, vals) for (tgt, vals) in entries if tgt in c.doomed]
        # a constant discriminant (e.g. aggregate just built)
        if V[0] == "const":
            for tgt, vals in entries:
                if vals and vals[0] == "not":
                    if V[1] not in vals[1:]:
                        return tgt
                elif V[1] in vals:
                    return tgt
        if not live:
            if cont is None or getattr(cont, 'fork_ok', False):
                self._finish(st, "unreachable", None, out)
            return None
        kind = "assume" if dead else "branch"
        if len(live) == 1:
            tgt, vals = live[0]
            if dead or len(entries) > 1:
                st.conds.append((V, vals, kind, t["s"], len(st.effects)))
            return tgt
        if cont is not None and not getattr(cont, "fork_ok", False):
            raise TooManyPaths("fork inside inlined frame: " + fn.key)
        for i, (tgt, vals) in enumerate(live):
            s2 = st.clone() if i < len(live) - 1 else st
            s2.conds.append((V, vals, "branch", t["s"], len(s2.effects)))
            if (bb, tgt) in c.backedges():
                self._finish(s2, ("backedge", tgt), None, out)
                continue
            self._exec(fn, fid, tgt, s2, depth, out, cont)
        return None

    def _call(self, fn, c, fid, bb, t, st, depth, out, cont):
        f = t["f"]
        args = [self.operand(st, fid, a) for a in t["args"]]
        path = callee_path(t)
        st.eid += 1
        ev = st.eid
        callee = self.table.lookup(f) if not f.get("indirect") else None
        if callee is None and isinstance(f.get("from_impl"), dict):
            callee = self.table.lookup({"resolved": f["from_impl"], "path": f["from_impl"]["path"]})
        dest = self.place_loc(st, fid, t["d"])
        desc = callee.path if (callee is not None and isinstance(f.get("from_impl"), dict) and self.table.lookup(f) is None) else describe_callee(f)
        if path in cfgmod.UNREACHABLE_FNS:
            if cont is None or getattr(cont, 'fork_ok', False):
                self._finish(st, "unreachable", None, out)
            return None
        # `?` on a known Ok/Some/Err/None aggregate: Try::branch / from_residual are modelled exactly
        model = None
        if path is not None and args and isinstance(args[0], tuple) and args[0] and args[0][0] == "agg" and args[0][1] == "adt" and t.get("t") is not None:
            X = args[0]
            if path.endswith("Try>::branch") or path == "std::ops::Try::branch":
                if X[3] in ("Ok", "Some"):
                    model = ("agg", "adt", "std::ops::ControlFlow", "Continue", (("0", X[4][0][1]),), 0)
                elif X[3] == "Err":
                    model = ("agg", "adt", "std::ops::ControlFlow", "Break", (("0", ("agg", "adt", X[2], "Err", X[4], 1)),), 1)
                elif X[3] == "None":
                    model = ("agg", "adt", "std::ops::ControlFlow", "Break", (("0", ("agg", "adt", X[2], "None", (), 0)),), 1)
            elif path.endswith("from_residual") and X[3] in ("Err", "None"):
                model = X
        if model is not None:
            st.effects.append(("call", ev, desc, tuple(args), depth, t["s"], fn.key, True, f, ()))
            st.effects.append(("ret", ev, desc, model, depth))
            st.write(dest, model)
            return t["t"]
        do_inline = (
            self.inline
            and callee is not None
            and depth < MAX_DEPTH
            and t.get("t") is not None
            and self.inlinable(callee)
        )
        snapw = tuple(st.read(w) for w in self.watch) if self.watch else ()
        st.effects.append(("call", ev, desc, tuple(args), depth, t["s"], fn.key, bool(do_inline), f, snapw))
        if t.get("t") is None:
            # diverging call
            if cont is None or getattr(cont, 'fork_ok', False):
                self._finish(st, ("diverge", desc), None, out)
            return None
        if self.known_fns is not None and path is not None and t.get("t") is not None and (cont is None or getattr(cont, "fork_ok", False)) and len(args) == 2 \
                and re.search(r"num::<impl (usize|u32|u64|u16|u8)>::checked_sub$", path):
            # x.checked_sub(y) on unsigned integers, modelled exactly: None iff x < y, else Some(x - y)
            st.effects.append(("call", ev, desc, tuple(args), depth, t["s"], fn.key, True, f, ()))
            a_, b_ = args
            sub = path.endswith("checked_sub")
            backedges_ = c.backedges()
            opt = "std::option::Option"
            for none_case in (True, False):
                s2 = st.clone() if none_case else st
                if sub:
                    s2.conds.append((("bin", "Lt", a_, b_), (1,) if none_case else (0,), "branch", t["s"], len(s2.effects)))
                    val = ("bin", "Sub", a_, b_)
                else:
                    continue
                model_ = ("agg", "adt", opt, "None", (), 0) if none_case else ("agg", "adt", opt, "Some", (("0", val),), 1)
                s2.effects.append(("ret", ev, desc, model_, depth))
                s2.write(dest, model_)
                if (bb, t["t"]) in backedges_:
                    if cont is None or getattr(cont, "fork_ok", False):
                        self._finish(s2, ("backedge", t["t"]), None, out)
                    continue
                self._exec(fn, fid, t["t"], s2, depth, out, cont)
            return None
        if (not do_inline) and self.inline and callee is not None and depth < 3 and t.get("t") is not None and (cont is None or getattr(cont, "fork_ok", False)) and self.multi_ok(callee):
            # branching helper unknown to the rules: every returning path of the helper continues this caller
            st.effects[-1] = st.effects[-1][:7] + (True,) + st.effects[-1][8:]
            self._frame += 1
            nf = self._frame
            for i, a in enumerate(args):
                st.store[("local", nf, i + 1)] = a
            backedges_ = c.backedges()

            def k_multi(st2, ret, nf=nf):
                for kk in [kk for kk in st2.store if kk[0] == "local" and kk[1] == nf]:
                    del st2.store[kk]
                st2.effects.append(("ret", ev, desc, ret, depth))
                st2.write(dest, ret)
                if dest[0] != "local":
                    st2.effects.append(("store", canon_loc(dest), ret, depth, t["s"], fn.key))
                if (bb, t["t"]) in backedges_:
                    if cont is None or getattr(cont, 'fork_ok', False):
                        self._finish(st2, ("backedge", t["t"]), None, out)
                    return
                self._exec(fn, fid, t["t"], st2, depth, out, cont)

            k_multi.fork_ok = True
            self._exec(callee, nf, 0, st, depth + 1, out, k_multi)
            return None
        if do_inline:
            self._frame += 1
            nf = self._frame
            for i, a in enumerate(args):
                st.store[("local", nf, i + 1)] = a
            result = {}

            def k(st2, ret):
                result["st"] = st2
                result["ret"] = ret

            self._exec(callee, nf, 0, st, depth + 1, out, k)
            if "ret" not in result:
                # callee diverged/unreachable on its single path
                if cont is None or getattr(cont, 'fork_ok', False):
                    self._finish(st, ("diverge", desc), None, out)
                return None
            ret = result["ret"]
            # drop the callee frame's locals
            dead = [kk for kk in st.store if kk[0] == "local" and kk[1] == nf]
            for kk in dead:
                del st.store[kk]
            st.effects.append(("ret", ev, desc, ret, depth))
            st.write(dest, ret)
            if dest[0] != "local":
                st.effects.append(("store", canon_loc(dest), ret, depth, t["s"], fn.key))
            return t["t"]
        # opaque call: snapshot what references to locals point to (pre-call), then havoc
        # what mutable pointer arguments can reach
        snap = []
        for a in args:
            if a[0] == "ref" and not is_heap(a[1]):
                snap.append(("refv", st.read(a[1])))
            else:
                snap.append(a)
        st.effects[-1] = st.effects[-1][:3] + (tuple(snap),) + st.effects[-1][4:]
        for i, a in enumerate(t["args"]):
            p = a.get("m") or a.get("c")
            ty = None
            if p is not None:
                ty = self._operand_ty(fn, p)
            if ty is None:
                continue
            if is_mut_ptr_ty(ty):
                V = args[i]
                if V[0] == "ref":
                    st.havoc(V[1], ev)
                    st.effects.append(("havoc", canon_loc(V[1]), ev, depth))
                else:
                    st.havoc(("deref", V), ev)
                    st.effects.append(("havoc", ("deref", V), ev, depth))
                    if not (V and V[0] == "arg"):
                        self._heapx(st, None, ev, depth)
        ret = ("call", desc, tuple(snap), ev)
        st.write(dest, ret)
        if dest[0] != "local":
            st.effects.append(("store", canon_loc(dest), ret, depth, t["s"], fn.key))
        return t["t"]

    def _heapx(self, st, keep, ev, depth):
        """A write through a derived (non-parameter) pointer may alias any other location
        reached through a derived pointer."""
        dead = [k for k in st.store if k != keep and is_derived(k) and not (keep is not None and keep in loc_chain(k))]
        for k in dead:
            del st.store[k]
        st.havocs.append((("heapx",), ev))
        st.effects.append(("havoc", ("heapx",), ev, depth))

    def _operand_ty(self, fn, pl):
        if not pl["p"]:
            return fn.local_ty(pl["l"])
        last = pl["p"][-1]
        if isinstance(last, dict) and "ty" in last:
            return last["ty"]
        return None


def deref_loc(V):
    if V[0] == "ref":
        return V[1]
    return ("deref", V)


def describe_callee(f):
    if f.get("indirect"):
        return "<indirect>"
    r = f.get("resolved")
    if isinstance(r, dict) and r.get("kind") == "item":
        return r["path"]
    if isinstance(r, dict):
        return "%s[%s]" % (r["path"], r["kind"])
    return f["path"]


# ----------------------------------------------------------------------------------
# pretty printing
# ----------------------------------------------------------------------------------
def show_loc(L, names=None):
    k = L[0]
    if k == "local":
        return "_%d" % L[2]
    if k == "deref":
        return "*" + show(L[1], names)
    if k == "field":
        return "%s.%s" % (show_loc(L[1], names), L[2])
    if k == "downcast":
        return "(%s as %s)" % (show_loc(L[1], names), L[2])
    if k == "index":
        return "%s[%s]" % (show_loc(L[1], names), show(L[2], names))
    if k == "cindex":
        return "%s[%s%d]" % (show_loc(L[1], names), "-" if L[3] else "", L[2])
    if k == "heap":
        return "<heap>"
    return str(L)


def show(V, names=None):
    if not isinstance(V, tuple) or not V:
        return str(V)
    k = V[0]
    if k == "const":
        return str(V[1]) if len(V) == 2 else "%s(=%s)" % (V[2].split("::")[-1], V[1])
    if k == "str":
        return repr(V[1])
    if k == "arg":
        if names and V[1] in names:
            return names[V[1]]
        return "arg%d" % V[1]
    if k == "load":
        return show_loc(V[1], names) + ("@%d" % V[2] if V[2] else "")
    if k == "ref":
        return "&" + show_loc(V[1], names)
    if k == "bin":
        return "%s(%s, %s)" % (V[1], show(V[2], names), show(V[3], names))
    if k == "un":
        return "%s(%s)" % (V[1], show(V[2], names))
    if k == "cast":
        return "cast[%s](%s)" % (V[1], show(V[2], names))
    if k == "discr":
        return "discr(%s)" % show(V[1], names)
    if k == "call":
        from .facts import short_path
        return "%s(%s)%s" % (short_path(V[1]), ", ".join(show(a, names) for a in V[2]), ("#%d" % V[3]) if len(V) > 3 else "")
    if k == "agg":
        nm = V[2].split("::")[-1] if V[2] else V[1]
        if V[3]:
            nm = "%s::%s" % (nm, V[3])
        return "%s{%s}" % (nm, ", ".join("%s: %s" % (f, show(v, names)) for f, v in V[4]))
    if k == "refv":
        return "&(" + show(V[1], names) + ")"
    if k == "vfield":
        return "%s.%s" % (show(V[1], names), V[2])
    if k == "vdown":
        return "(%s as %s)" % (show(V[1], names), V[2])
    if k == "loopvar":
        return "loopvar(bb%d,_%d,init=%s)" % (V[1], V[2], show(V[3], names) if V[3] else "?")
    if k == "uneval":
        return V[1]
    if k == "fn":
        return "fn " + V[1]
    if k == "undef":
        return "undef(_%s)" % (V[1],)
    return str(V)


def show_cond(c, names=None):
    V, vals, kind = c[0], c[1], c[2]
    return "%s %s %s [%s]" % (show(V, names), "in" if vals and vals[0] != "not" else "not in", vals if vals and vals[0] != "not" else vals[1:], kind)
