"""Static (configuration independent) rules over E3 output: templates, cfg inventory,
sibling helper equality, Cargo feature wiring. Signature: rule(repo, tier, R)."""
import json
import os
import re
import subprocess
import collections

VERIF = os.path.dirname(os.path.dirname(os.path.dirname(os.path.abspath(__file__))))
TOOL = os.path.join(VERIF, "engine/tmpl/target/release/tmpl")
_cache = {}


def tmpl(repo):
    if repo in _cache:
        return _cache[repo]
    if not os.path.exists(TOOL):
        r = subprocess.run(["cargo", "build", "--release", "--offline"], cwd=os.path.join(VERIF, "engine/tmpl"), capture_output=True, text=True)
        if r.returncode != 0:
            raise RuntimeError("tmpl tool failed to build: " + r.stderr[-2000:])
    files = []
    for root in ("src", "macros/src"):
        for dp, dn, fn in sorted(os.walk(os.path.join(repo, root))):
            for f in sorted(fn):
                if f.endswith(".rs"):
                    files.append(os.path.join(dp, f))
    r = subprocess.run([TOOL] + files, capture_output=True, text=True)
    if r.returncode != 0:
        raise RuntimeError("tmpl failed: " + r.stderr[-2000:])
    d = json.loads(r.stdout)
    for k in ("templates", "cfgs", "fns"):
        for x in d[k]:
            x["rel"] = os.path.relpath(x["file"], repo)
    d["files"] = files
    _cache[repo] = d
    return d


def text(t):
    return " ".join(x[0] for x in t["tokens"])


FORBIDDEN_ATTRS = ("no_mangle", "export_name", "link_section", "link", "naked", "link_name", "used")


def scan_template(tokens):
    """Returns a list of reasons why this token list could need `unsafe` / escape forbid(unsafe_code)."""
    bad = []
    toks = [x[0] for x in tokens]
    kinds = [x[1] for x in tokens]
    for i, t in enumerate(toks):
        if kinds[i] == "ident" and t == "unsafe":
            bad.append("ident `unsafe`")
        if kinds[i] == "ident" and t == "extern" and i + 1 < len(toks) and (kinds[i + 1] == "lit" or toks[i + 1] == "{"):
            bad.append("extern block / ABI")
        if kinds[i] == "ident" and t == "static" and i + 1 < len(toks) and toks[i + 1] == "mut":
            bad.append("static mut")
        if t == "#" and i + 2 < len(toks) and toks[i + 1] in ("[", "!"):
            j = i + 2 if toks[i + 1] == "[" else i + 3
            if j < len(toks) and toks[j] in FORBIDDEN_ATTRS:
                bad.append("attribute #[%s]" % toks[j])
            if j + 2 < len(toks) and toks[j] == "allow" and "unsafe_code" in toks[j:j + 6]:
                bad.append("allow(unsafe_code)")
        if kinds[i] == "lit" and "unsafe" in t:
            bad.append("literal mentioning unsafe: %s" % t)
    return bad


def rule_templates_unsafe_free(repo, tier, R):
    d = tmpl(repo)
    for e in d["errors"]:
        R.fail("C18-R1", "lex|%s" % e.split(":")[0], "source file could not be lexed (fail closed): %s" % e, None)
    n = 0
    for t in d["templates"]:
        if not t["rel"].startswith("macros/"):
            continue
        n += 1
        bad = scan_template(t["tokens"])
        key = "%s|%s|%s#%d" % (t["rel"], t["fn"], t["macro"], sum(1 for u in d["templates"][:d["templates"].index(t)] if u["fn"] == t["fn"] and u["rel"] == t["rel"]))
        R.check(not bad, "C18-R1", key, "template emits no token that needs unsafe (%d tokens)" % len(t["tokens"]),
                "template in %s (fn %s) can emit %s: generated code would no longer be accepted under #![forbid(unsafe_code)]" % (t["rel"], t["fn"], ", ".join(sorted(set(bad)))), "%s:%d (%s)" % (t["file"], t["line"], t["fn"]))
    # Ident::new("...") / Ident::new_raw literals in the generator
    for f in d["fns"]:
        if not f["rel"].startswith("macros/"):
            continue
        for m in re.finditer(r'Ident : : new(?:_raw)? \( ("[^"]*")', f["body"]):
            R.check("unsafe" not in m.group(1), "C18-R1", "%s|%s|Ident::new(%s)" % (f["rel"], f["fn"], m.group(1)), "generator-built identifier %s" % m.group(1), "generator builds the identifier %s" % m.group(1), "%s (%s)" % (f["file"], f["fn"]))
    # positive fixture: the scanner must fire on a template that contains unsafe
    fixture = [["unsafe", "ident"], ["{", "open"], ["slices", "ident"], [".", "punct"], ["get_unchecked", "ident"], ["}", "close"]]
    R.check(bool(scan_template(fixture)), "C18-R1", "fixture|positive", "scanner fires on the positive fixture `unsafe { .. }`", "scanner does not fire on the positive fixture (checker broken)", None)
    fixture2 = [["#", "punct"], ["[", "open"], ["no_mangle", "ident"], ["]", "close"]]
    R.check(bool(scan_template(fixture2)), "C18-R1", "fixture|positive-attr", "scanner fires on #[no_mangle]", "scanner does not fire on the #[no_mangle] fixture", None)
    R.note("templates scanned: %d (quote/quote_spanned/format_ident in macros/src)" % n)
    # specimen crates compile under forbid(unsafe_code) (C18-R2): the extraction of every configuration compiled them
    lib = os.path.join(VERIF, "specimen/src/lib.rs")
    ok = os.path.exists(lib) and "#![forbid(unsafe_code)]" in open(lib).read()
    R.check(ok, "C18-R2", "specimen|forbid(unsafe_code)", "the specimen client crate is #![forbid(unsafe_code)] and is compiled in every analysed configuration (all five query macros, all parameter kinds, events, 32 components)",
            "the specimen crate no longer forbids unsafe code", lib)


def rule_template_shapes(repo, tier, R):
    """C16-R2 (probe chain), C16-R4 (attrs emitted with arg/bind), C15-R6 (ecs_component_id!)."""
    d = tmpl(repo)
    ts = [t for t in d["templates"] if t["rel"].startswith("macros/")]
    for g in ("generate_cfg_checks_outer", "generate_cfg_checks_inner"):
        mine = [t for t in ts if t["fn"] == g and t["macro"] == "quote"]
        body = " ".join(text(t) for t in mine)
        where = "%s (%s)" % (mine[0]["file"] if mine else "?", g)
        pos = re.search(r"# \[ cfg \( # predicate \) \] (?:# \[ doc \( hidden \) \] )?macro_rules ! # this \{ \( \( \$ \( \$ bools : expr \) , \* \) , \$ \( \$ args : tt \) \* \) = > \{ # next ! \( \( \$ \( \$ bools , \) \* (true|false) \) , \$ \( \$ args \) \* \)", body)
        neg = re.search(r"# \[ cfg \( not \( # predicate \) \) \] (?:# \[ doc \( hidden \) \] )?macro_rules ! # this \{ \( \( \$ \( \$ bools : expr \) , \* \) , \$ \( \$ args : tt \) \* \) = > \{ # next ! \( \( \$ \( \$ bools , \) \* (true|false) \) , \$ \( \$ args \) \* \)", body)
        R.check(pos is not None and pos.group(1) == "true", "C16-R2", g + "|enabled-arm", "arm under #[cfg(P)] appends `true` after the bools seen so far",
                "the arm under #[cfg(#predicate)] does not forward `($($bools,)* true)` (polarity or position of the appended state is wrong)", where)
        R.check(neg is not None and neg.group(1) == "false", "C16-R2", g + "|disabled-arm", "arm under #[cfg(not(P))] appends `false` after the bools seen so far",
                "the arm under #[cfg(not(#predicate))] does not forward `($($bools,)* false)`", where)
        start = re.search(r"# start ! \( \( \) , \{ # raw \} \)", body)
        short = re.search(r"# finish ! \( \( \) , \{ # raw \} \)", body)
        R.check(start is not None, "C16-R2", g + "|start", "chain starts with no states: #start!((), { raw })", "chain start invocation is not `#start!((), { #raw })`", where)
        R.check(short is not None, "C16-R2", g + "|no-predicate-shortcut", "without predicates: #finish!((), { raw })", "no-predicate shortcut is not `#finish!((), { #raw })`", where)
        fi = [t for t in ts if t["fn"] == g and t["macro"] == "format_ident"]
        ftxt = [text(t) for t in fi]
        ok_names = any(re.match(r'"__cfg_ecs_\{\}_\{\}" , name , idx$', x) for x in ftxt) and any(re.match(r'"__cfg_ecs_\{\}_\{\}" , name , idx \+ 1$', x) for x in ftxt) \
            and any(re.match(r'"__cfg_ecs_\{\}_0" , name$', x) for x in ftxt) and any(re.match(r'"__impl_ecs_\{\}" , name$', x) for x in ftxt)
        R.check(ok_names, "C16-R2", g + "|macro-names", "probe idx is named _idx and forwards to _idx+1; start is _0; finish is __impl_ecs_<name>", "probe macro names are %s" % ftxt, where)
    # C16-R4: #attrs precedes every #arg / #bind in the same repetition
    n_sites = 0
    for t in ts:
        toks = [x[0] for x in t["tokens"]]
        for i in range(len(toks) - 1):
            if toks[i] == "#" and toks[i + 1] in ("arg", "bind"):
                n_sites += 1
                ok = i >= 2 and toks[i - 2] == "#" and toks[i - 1] == "attrs"
                R.check(ok, "C16-R4", "%s|%s|#%s@%d" % (t["rel"], t["fn"], toks[i + 1], n_sites), "#attrs emitted immediately before #%s" % toks[i + 1],
                        "template in %s emits #%s without the parameter's #[cfg] attributes (#attrs) in front: a disabled parameter would still be declared/passed" % (t["fn"], toks[i + 1]), "%s:%d (%s)" % (t["file"], t["line"], t["fn"]))
    R.check(n_sites >= 8, "C16-R4", "attrs-sites", "%d #arg/#bind emission sites judged" % n_sites, "only %d #arg/#bind emission sites found (expected >= 8)" % n_sites, None)
    ta = [t for t in ts if t["fn"] == "to_attributes" and t["macro"] == "quote"]
    R.check(len(ta) == 1 and text(ta[0]) == "# [ cfg ( # predicate ) ]", "C16-R4", "to_attributes", "every cfg of a parameter is re-emitted as #[cfg(predicate)]", "to_attributes emits %s" % [text(t) for t in ta], None)
    # C15-R6
    tc = [t for t in ts if t["fn"] == "generate_ecs_component_id" and t["macro"] == "quote"]
    txt = [text(t) for t in tc]
    R.check("< # Archetype as ArchetypeHas < # Component > > : : COMPONENT_ID" in txt and "MatchedArchetype" in txt, "C15-R6", "ecs_component_id", "ecs_component_id! = <Arch as ArchetypeHas<C>>::COMPONENT_ID, default MatchedArchetype",
            "ecs_component_id! templates are %s" % txt, None)


def rule_sibling_helpers(repo, tier, R):
    d = tmpl(repo)
    a = [f for f in d["fns"] if f["fn"] == "to_snake" and f["rel"].endswith("generate/util.rs")]
    b = [f for f in d["fns"] if f["fn"] == "to_snake_str" and f["rel"].endswith("generate/query.rs")]
    if not a or not b:
        R.anchor_missing("to_snake / to_snake_str")
        return
    R.check(a[0]["body"] == b[0]["body"], "C05-R6", "to_snake==to_snake_str", "field names of generated structs and of query bindings come from token-equal helpers",
            "to_snake (%s) and to_snake_str (%s) differ: slices.<field> in queries would not name the generated struct field" % (a[0]["body"], b[0]["body"]), a[0]["file"])


# ----------------------------------------------------------------------------------
# C19-R1/R2/R6: cfg inventory
# ----------------------------------------------------------------------------------
def load_cfg_table():
    with open(os.path.join(VERIF, "tables/cfg_sites.json")) as f:
        return json.load(f)


def norm_pred(p):
    return re.sub(r"\s+", " ", p).strip()


def rule_cfg_inventory(repo, tier, R):
    d = tmpl(repo)
    table = load_cfg_table()
    roles = {}
    for e in table["sites"]:
        roles[(e["pred"], bool(e.get("template", False)))] = e.get("role", "")
    # C19-R1: every conditional-compilation site uses one of the predicates the crate documents, and each site is then
    # judged by the confinement rule of its predicate class (C19-R2/R3), wherever it sits. Sites are not counted and not
    # keyed by file or function: moving a gate, or sharing it through a helper, is not a finding; a gate on anything else
    # (a target, an undeclared feature, `test`) or an emitted gate that is not the user's own predicate is.
    KNOWN = {'feature = "events"', 'any ( doc , feature = "events" )', 'feature = "32_components"', 'feature = "wrapping_version"', 'not ( feature = "wrapping_version" )',
             "debug_assertions", "not ( debug_assertions )", "doc", "not ( doc )", "docsrs , feature ( doc_auto_cfg )"}
    KNOWN_T = {"# predicate", "not ( # predicate )"}
    n_sites = 0
    for c in d["cfgs"]:
        pred = norm_pred(c["pred"])
        in_t = "<template>" in c["fn"]
        n_sites += 1
        ok = (pred in KNOWN_T) if in_t else (pred in KNOWN)
        key = "%s|%s(%s)%s" % (c["rel"], c["kind"], pred, "|template" if in_t else "")
        R.check(ok, "C19-R1", key, "documented predicate: %s" % roles.get((pred, in_t), pred),
                "%s gates code on `%s`%s: not one of the documented features / debug_assertions / doc%s. Behaviour would vary with something the crate does not document." % (
                    c["rel"], pred, " inside an emitted template" if in_t else "", " (emitted code may only repeat the user's own predicate)" if in_t else ""), "%s:%s" % (c["file"], c["line"]))
    R.check(n_sites >= 30, "C19-R1", "cfg-sites|count", "%d conditional-compilation sites judged" % n_sites, "only %d cfg sites found (the scan lost its anchors)" % n_sites, None)
    # pairing of the wrapping_version alternatives: in every function both polarities occur equally often, so exactly one is compiled
    pol = collections.defaultdict(lambda: [0, 0])
    for c in d["cfgs"]:
        pred = norm_pred(c["pred"])
        if "wrapping_version" in pred and "<template>" not in c["fn"]:
            pol[(c["rel"], c["fn"])][1 if pred.startswith("not") else 0] += 1
    for (rel, fn_), (a_, b_) in sorted(pol.items()):
        R.check(a_ == b_, "C19-R2", "%s|wrapping_version|pairing@%s" % (rel, fn_ or "item"), "wrapping / checked alternatives are paired (%d each)" % a_,
                "%s: %d site(s) gated on wrapping_version but %d on its negation in %s: with one setting of the feature a piece of code is missing or doubled" % (rel, a_, b_, fn_ or "item scope"), None)
    # C19-R2 confinement of gated regions (lexical part; the effect side is judged on MIR by C17-R1 / C08-R2 / G-DBG)
    for c in d["cfgs"]:
        if "<template>" in c["fn"]:
            continue
        pred = norm_pred(c["pred"])
        gated = c["gated"]
        key = "%s|%s|%s@%s" % (c["rel"], pred, c["fn"] or "item", re.sub(r"\W+", "_", gated[:24]))
        where = "%s:%s" % (c["file"], c["line"])
        if pred == 'feature = "events"' or pred == 'any ( doc , feature = "events" )':
            ok = re.search(r"\b(created|destroyed|clear_events|iter_created|iter_destroyed|EntityAny)\b", gated) is not None
            bad = re.search(r"\bself \. (len|capacity|version|free_head|slots|entities|d\d+)\b(?! \( \))\s*(=|\+=|-=)", gated)
            R.check(ok and not bad, "C19-R2", key, "events gate confined to the event logs", "code gated on `events` touches more than the event logs: %s" % gated[:120], where)
        elif "wrapping_version" in pred:
            succ = re.search(r"\b(wrapping_add|checked_add) \( 1 \)", gated) is not None
            bad = re.search(r"\bself \. (len|capacity|free_head|slots|entities|created|destroyed|d\d+)\b|\b(push|swap_remove|write|release|assign|grow) \(", gated)
            # what the two alternatives compute is judged per configuration on MIR (C08-R2, C19-R5); lexically the gate
            # must not reach beyond an expression: no store to a storage field, no mutating call
            R.check(not bad, "C19-R2", key, "wrapping_version gate holds an expression only (no field store, no mutating call)%s" % (" -- the successor computation" if succ else ""), "wrapping_version gates `%s` in %s: a state change under the gate" % (gated[:100], c["fn"]), where)
        elif pred == 'feature = "32_components"':
            m = re.match(r"seq ! \( N in 17 \.\s*\. = 32 \{ (.*) \} \)$", gated.strip())
            ok = m is not None
            if ok:
                # the same macro call must exist ungated for 1..=16 in this file
                src = " ".join(x for x in [f2["body"] for f2 in d["fns"] if f2["file"] == c["file"]])
                ftxt = open(c["file"]).read()
                inner = re.sub(r"\s+", "", m.group(1))
                ung = re.search(r"seq!\(Nin1\.\.=16\{(.*?)\}\);", re.sub(r"\s+", "", ftxt), re.S)
                ok = ung is not None and re.sub(r"\s+", "", ung.group(1)) == inner
            R.check(ok, "C19-R2", key, "32_components gate = the same instantiation for N in 17..=32", "32_components gates `%s`, which is not the 17..=32 twin of the ungated 1..=16 instantiation" % gated[:100], where)
        elif pred == "debug_assertions":
            bad = re.search(r"self \. \w+ (=|\+=|-=) |& mut |\. (push|write|swap_remove|assign|release|grow|clear|borrow_mut|get_mut) \(", gated)
            R.check(bad is None, "C19-R3", key, "cfg(debug_assertions) block has no write", "the cfg(debug_assertions) block contains a state change: %s" % (bad.group(0) if bad else ""), where)
    # C19-R6 Cargo feature wiring
    try:
        import tomllib
        with open(os.path.join(repo, "Cargo.toml"), "rb") as f:
            ct = tomllib.load(f)
        with open(os.path.join(repo, "macros/Cargo.toml"), "rb") as f:
            mt = tomllib.load(f)
        feats = ct.get("features", {})
        ok = feats.get("events") == ["gecs_macros/events"] and feats.get("default", []) == [] and feats.get("32_components") == [] and feats.get("wrapping_version") == [] and set(feats) == {"default", "events", "32_components", "wrapping_version"}
        R.check(ok, "C19-R6", "Cargo.toml|features", "events forwards to gecs_macros/events; no other forwarding; no default features", "gecs features are %s" % feats, os.path.join(repo, "Cargo.toml"))
        mf = mt.get("features", {})
        R.check(mf.get("events") == [] and mf.get("default", []) == [] and set(mf) <= {"default", "events"}, "C19-R6", "macros/Cargo.toml|features", "gecs_macros has only the events feature", "gecs_macros features are %s" % mf, os.path.join(repo, "macros/Cargo.toml"))
        dep = ct.get("dependencies", {}).get("gecs_macros", {})
        R.check(isinstance(dep, dict) and dep.get("default-features") is False, "C19-R6", "Cargo.toml|macros-dependency", "gecs_macros without default features", "gecs_macros dependency is %s" % dep, os.path.join(repo, "Cargo.toml"))
    except Exception as e:
        R.fail("C19-R6", "Cargo.toml|parse", "could not parse Cargo manifests: %s" % e, None)
