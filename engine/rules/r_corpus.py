"""E4 generator: bounded families of ecs_world! declarations compiled against the current tree with
const witnesses (`const _: () = assert!(..)`), expected values from an independent oracle
(a re-statement of the discriminant rule below, not derived from gecs). These are SAMPLED programs:
they witness, the universal claim is carried by the MIR rules on the generator (C15-R1..R4, C16-R1..R4)."""
import concurrent.futures
import itertools
import os
import re
import shutil
import tempfile

from .r_witness import base_build, compile_file, WitnessError, VERIF

ID_MODES = [None, 0, 1, 5, 254, 255]
PREDS = [("all()", True), ("any()", False), ("not(any())", True), ("not(all())", False), ("all(all())", True), ("any(any())", False)]


class Reject(Exception):
    pass


def is_cfg_family(w):
    return w.name[:2] in ("WF", "WG", "WH", "WJ")


class _Recorder:
    """records Report calls so that a corpus compiled once is replayed into every property that uses it"""

    def __init__(self):
        self.calls = []

    def check(self, cond, *a, **k):
        self.calls.append(("check", (cond,) + a, k))
        return cond

    def fail(self, *a, **k):
        self.calls.append(("fail", a, k))

    def ok(self, *a, **k):
        self.calls.append(("ok", a, k))

    def note(self, *a, **k):
        self.calls.append(("note", a, k))


_memo = {}


def memo_static(fn):
    def wrapper(repo, tier, R):
        key = (fn.__name__, os.path.abspath(repo), tier, os.environ.get("VERIF_SEED", ""))
        if key not in _memo:
            rec = _Recorder()
            fn(repo, tier, rec)
            _memo[key] = rec.calls
        for (m, a, k) in _memo[key]:
            getattr(R, m)(*a, **k)
    wrapper.__name__ = fn.__name__
    return wrapper


def oracle(items):
    """items: [(explicit id or None, enabled)] -> list of ids for the enabled ones (enum discriminant rule)."""
    last = None
    used = set()
    out = []
    for (explicit, enabled) in items:
        if not enabled:
            continue
        if explicit is not None:
            nxt = explicit
        elif last is not None:
            if last == 255:
                raise Reject("attribute id may not exceed 255")
            nxt = last + 1
        else:
            nxt = 0
        if nxt in used:
            raise Reject("already assigned to")
        used.add(nxt)
        last = nxt
        out.append(nxt)
    return out


def plist(p):
    """a cfg slot: None, one predicate, or a tuple of predicates (several #[cfg] attributes = conjunction)"""
    return [] if p is None else ([p] if isinstance(p, str) else list(p))


class World:
    def __init__(self, name, archs):
        # archs: [(arch_name, explicit_id, pred or None, [(comp, explicit_id, pred or None)])]
        self.name = name
        self.archs = archs

    def source(self):
        lines = ["pub mod m_%s {" % self.name.lower(), "    #[allow(unused_imports)] use gecs::prelude::*;"]
        comps = sorted({c for a in self.archs for (c, _, _) in a[3]})
        for c in comps:
            lines.append("    pub struct %s;" % c)
        lines.append("    ecs_world! {")
        lines.append("        ecs_name!(%s);" % self.name)
        for (an, aid, ap, cs) in self.archs:
            attrs = ""
            for q in plist(ap):
                attrs += "#[cfg(%s)] " % q
            if aid is not None:
                attrs += "#[archetype_id(%d)] " % aid
            cl = []
            for (c, cid, cp) in cs:
                x = ""
                for q in plist(cp):
                    x += "#[cfg(%s)] " % q
                if cid is not None:
                    x += "#[component_id(%d)] " % cid
                cl.append(x + c)
            lines.append("        %secs_archetype!(%s, %s);" % (attrs, an, ", ".join(cl)))
        lines.append("    }")
        return lines

    def reduced(self):
        """the same declaration with every disabled item deleted and every #[cfg] removed"""
        truth = dict(PREDS)
        en = lambda p: all(truth[q] for q in plist(p))
        archs = []
        for (an, aid, ap, cs) in self.archs:
            if not en(ap):
                continue
            archs.append((an, aid, None, [(c, cid, None) for (c, cid, cp) in cs if en(cp)]))
        return World(self.name + "R", archs)

    def twin_expectations(self, ref):
        """const assertions: every constant of the decorated world equals the one of its reduced twin"""
        mo, mr = "m_%s" % self.name.lower(), "m_%s" % ref.name.lower()
        out = []
        for (an, aid, ap, cs) in ref.archs:
            out.append("const _: () = assert!(<%s::%s as Archetype>::ARCHETYPE_ID == <%s::%s as Archetype>::ARCHETYPE_ID);" % (mo, an, mr, an))
            for (c, cid, cp) in cs:
                out.append("const _: () = assert!(<%s::%s as ArchetypeHas<%s::%s>>::COMPONENT_ID == <%s::%s as ArchetypeHas<%s::%s>>::COMPONENT_ID);" % (mo, an, mo, c, mr, an, mr, c))
        out.append("const _: () = assert!(<%s::%s as World>::NUM_ARCHETYPES == <%s::%s as World>::NUM_ARCHETYPES);" % (mo, self.name, mr, ref.name))
        return out

    def expectations(self):
        """-> (list of const-assert lines) or raises Reject"""
        truth = dict(PREDS)
        en = lambda p: all(truth[q] for q in plist(p))
        aids = oracle([(aid, en(ap)) for (_, aid, ap, _) in self.archs])
        out = []
        k = 0
        n = 0
        for (an, aid, ap, cs) in self.archs:
            if not en(ap):
                # a disabled archetype's components must not even be looked at (no id, no error)
                continue
            cids = oracle([(cid, en(cp)) for (_, cid, cp) in cs])
            out.append("    const _: () = assert!(<%s as Archetype>::ARCHETYPE_ID == %d);" % (an, aids[k]))
            j = 0
            for (c, cid, cp) in cs:
                if not en(cp):
                    continue
                out.append("    const _: () = assert!(<%s as ArchetypeHas<%s>>::COMPONENT_ID == %d);" % (an, c, cids[j]))
                out.append("    const _: () = assert!(ecs_component_id!(%s, %s) == %d);" % (c, an, cids[j]))
                j += 1
            if j == 0:
                raise Reject("archetype without components")
            k += 1
            n += 1
        if n == 0:
            raise Reject("no archetype")
        out.append("    const _: () = assert!(<%s as World>::NUM_ARCHETYPES == %d);" % (self.name, n))
        return out


# C15-R5: the id literal is a u8: 255 is accepted as written, anything above cannot be an id and must be rejected
# (other attribute forms -- radix, suffixes, repeated or misplaced attributes -- are not demanded either way by the property)
RAW = [
    ("WR0", ["#[archetype_id(255)] ecs_archetype!(A0, #[component_id(255)] P0);"], ["<A0 as Archetype>::ARCHETYPE_ID == 255", "<A0 as ArchetypeHas<P0>>::COMPONENT_ID == 255"], None),
    ("WR3", ["#[archetype_id(256)] ecs_archetype!(A0, P0);"], None, ("number too large", "out of range", "too large")),
    ("WR4", ["ecs_archetype!(A0, #[component_id(256)] P0);"], None, ("number too large", "out of range", "too large")),
    ("WR5", ["#[archetype_id(1000)] ecs_archetype!(A0, P0);"], None, ("number too large", "out of range", "too large")),
]


def raw_source(name, decl):
    lines = ["pub mod m_%s {" % name.lower(), "    #[allow(unused_imports)] use gecs::prelude::*;", "    pub struct P0; pub struct P1; pub struct P2;", "    ecs_world! {", "        ecs_name!(%s);" % name]
    lines += ["        " + d for d in decl]
    lines.append("    }")
    return lines


def families(tier, seed=0):
    """Bounded families. quick: every 3-item family in full (F1, F2, F3) and a third of the cfg x overflow family;
    thorough: additionally the 4-item families and all of F4."""
    worlds = []
    cnt = [0]

    def add(prefix, archs):
        worlds.append(World("%s%d" % (prefix, cnt[0]), archs))
        cnt[0] += 1

    two = [("P0", None, None), ("P1", None, None)]
    # F1: id modes on 3 (thorough: also 4, and 3 over a wider value set) archetypes
    wide = [None, 0, 2, 127, 128, 200, 253, 254, 255]
    for n in ((3, 4) if tier != "quick" else (3,)):
        for m in itertools.product(ID_MODES, repeat=n):
            add("WA", [("A%d" % j, m[j], None, list(two)) for j in range(n)])
    if tier != "quick":
        for m in itertools.product(wide, repeat=3):
            add("WA", [("A%d" % j, m[j], None, list(two)) for j in range(3)] + [("A3", None, None, list(two)), ("A4", None, None, list(two))])
            add("WC", [("A0", 3, None, [("P%d" % j, m[j], None) for j in range(3)] + [("P3", None, None), ("P4", None, None)])])
    # F2: id modes on 3 (thorough: 4) components; a second archetype restarts the numbering
    for n in ((3, 4) if tier != "quick" else (3,)):
        for m in itertools.product(ID_MODES, repeat=n):
            add("WC", [("A0", None, None, [("P%d" % j, m[j], None) for j in range(n)]), ("A1", 7, None, [("P0", None, None), ("P2", m[0], None)])])
    # F3: >= 3 distinct predicates in every order, on archetypes and components at once
    preds = [p for p, _ in PREDS]
    for (a, b, c) in itertools.permutations(range(len(preds)), 3):
        add("WF", [
            ("A0", None, preds[a], [("P0", None, None), ("P1", None, preds[b])]),
            ("A1", 9 if (a + b) % 2 else None, preds[b], [("P0", None, preds[c]), ("P1", None, None), ("P2", None, preds[a])]),
            ("A2", None, preds[c], [("P2", None, None), ("P0", 3 if c % 2 else None, preds[b]), ("P1", None, None)]),
            ("AZ", None, None, [("P0", None, None), ("P1", None, preds[(a + 1) % len(preds)])]),
        ])
    # F4: cfg state x ids at the 255 boundary: a disabled item consumes no id and raises no error
    states = [(i, p) for i in (None, 254, 255) for p in (None, "all()", "any()")]
    f4 = list(itertools.product(states, repeat=3))
    if tier == "quick":
        f4 = f4[(seed % 3)::3]
    for m in f4:
        add("WG", [("A%d" % j, m[j][0], m[j][1], list(two)) for j in range(3)] + [("AZ", 100, None, list(two))])
    for m in f4:
        add("WH", [("A0", None, None, [("P%d" % j, m[j][0], m[j][1]) for j in range(3)] + [("P3", 100, None)])])
    # F5: several #[cfg] attributes on one item form a conjunction
    for (a, b) in itertools.product(range(len(preds)), repeat=2):
        add("WJ", [("A0", None, (preds[a], preds[b]), list(two)), ("A1", None, None, [("P0", None, None), ("P1", None, (preds[b], preds[a])), ("P2", None, None)]),
                   ("A2", None, (preds[b], preds[(a + 2) % len(preds)], preds[a]), list(two))])
    return worlds


@memo_static
def rule_id_corpus(repo, tier, R):
    seed = int(os.environ.get("VERIF_SEED", "0") or 0)
    try:
        rlib, deps = base_build(repo)
    except WitnessError as e:
        R.fail("BUILD", "witness-base", str(e), None)
        return
    worlds = families(tier, seed)
    good, bad = [], []
    for w in worlds:
        try:
            exp = w.expectations()
            good.append((w, exp))
        except Reject as e:
            bad.append((w, str(e)))
    work = tempfile.mkdtemp(prefix="corpus-", dir=os.path.join(VERIF, ".build"))
    try:
        per = 24
        jobs = []
        # raw attribute-form family: one file of accepted forms with const witnesses, one of forms that must be rejected
        rg = ["#![forbid(unsafe_code)]", "#![allow(dead_code, unused_imports, non_snake_case)]"]
        rb = ["#![allow(dead_code, unused_imports, non_snake_case)]"]
        rgi, rbi = {}, {}
        for (nm, decl, asserts, rej) in RAW:
            src = raw_source(nm, decl)
            if asserts is not None:
                start = len(rg) + 1
                rg += src + ["    const _: () = assert!(%s);" % a for a in asserts] + ["}"]
                rgi[nm] = (start, len(rg))
            else:
                start = len(rb) + 1
                rb += src + ["}"]
                rbi[nm] = (start, len(rb))
        for (kind_, lines_, idx_) in (("rawgood", rg, rgi), ("rawbad", rb, rbi)):
            path = os.path.join(work, "%s.rs" % kind_)
            open(path, "w").write("\n".join(lines_) + "\n")
            jobs.append((kind_, path, [], idx_))
        for ci in range(0, len(good), per):
            chunk = good[ci:ci + per]
            path = os.path.join(work, "good_%d.rs" % (ci // per))
            lines = ["#![forbid(unsafe_code)]", "#![allow(dead_code, unused_imports, non_snake_case)]"]
            index = {}
            lines.append("#[allow(unused_imports)] use gecs::prelude::*;")
            for (w, exp) in chunk:
                start = len(lines) + 1
                if is_cfg_family(w):
                    # C16 is judged differentially: against the same declaration with the disabled items deleted
                    ref = w.reduced()
                    lines += w.source() + ["}"]
                    index[w.name] = (start, len(lines))
                    start = len(lines) + 1
                    lines += ref.source() + ["}"]
                    index[w.name + "|ref"] = (start, len(lines))
                    start = len(lines) + 1
                    lines += w.twin_expectations(ref)
                    index[w.name + "|eq"] = (start, len(lines))
                else:
                    lines += w.source() + exp + ["}"]
                    index[w.name] = (start, len(lines))
            open(path, "w").write("\n".join(lines) + "\n")
            jobs.append(("good", path, chunk, index))
        for ci in range(0, len(bad), per):
            chunk = bad[ci:ci + per]
            path = os.path.join(work, "bad_%d.rs" % (ci // per))
            lines = ["#![allow(dead_code, unused_imports, non_snake_case)]"]
            index = {}
            for (w, msg) in chunk:
                start = len(lines) + 1
                lines += w.source() + ["}"]
                index[w.name] = (start, len(lines))
                if is_cfg_family(w):
                    start = len(lines) + 1
                    lines += w.reduced().source() + ["}"]
                    index[w.name + "|ref"] = (start, len(lines))
            open(path, "w").write("\n".join(lines) + "\n")
            jobs.append(("bad", path, chunk, index))
        with concurrent.futures.ThreadPoolExecutor(max_workers=12) as ex:
            futs = [(j, ex.submit(compile_file, j[1], rlib, deps)) for j in jobs]
            for (kind, path, chunk, index), fu in futs:
                rc, diags = fu.result()
                def owner(line):
                    for name, (a, b) in index.items():
                        if a <= line <= b:
                            return name
                    return None
                errs = {}
                for d in diags:
                    for l in d["lines"]:
                        o = owner(l)
                        if o:
                            errs.setdefault(o, []).append(d["message"])
                    if not d["lines"] and d["code"] is None and "aborting" in d["message"]:
                        continue
                if kind in ("rawgood", "rawbad"):
                    for (nm, decl, asserts, rej) in RAW:
                        if nm not in index:
                            continue
                        e = errs.get(nm, [])
                        if kind == "rawgood":
                            R.check(not e, "C15-R5", "attr-form|%s" % nm, "accepted with the ids the literal denotes: %s" % " ".join(decl)[:120],
                                    "declaration `%s` must be accepted with %s but: %s" % (" ".join(decl), asserts, (e or [""])[0][:200]), None)
                        else:
                            ok = bool(e)
                            R.check(ok, "C15-R5", "attr-form-reject|%s" % nm, "rejected: %s" % " ".join(decl)[:120],
                                    "declaration `%s` must be rejected at compile time (%s) but %s" % (" ".join(decl), "/".join(x for x in rej if x) or "any error", "is accepted" if not e else "fails with: " + e[0][:160]), None)
                    continue
                if kind == "good":
                    for (w, exp) in chunk:
                        is_cfg = is_cfg_family(w)
                        rule = "C16-R6" if is_cfg else "C15-R8"
                        e = errs.get(w.name)
                        decl = " ".join(x.strip() for x in w.source()[-(len(w.archs) + 1):-1])
                        if is_cfg:
                            eref = errs.get(w.name + "|ref")
                            eeq = errs.get(w.name + "|eq")
                            if eref:
                                # the plain (reduced) declaration itself misbehaves: not a cfg matter, C15's corpus reports it
                                R.note("C16 corpus: reduced twin of %s does not compile (%s); left to C15" % (w.name, eref[0][:80]))
                                R.ok(rule, "corpus|%s" % w.name, None, nontrivial=False)
                                continue
                            R.check(not e and not eeq, rule, "corpus|%s" % w.name, "every constant equals that of the same declaration with the disabled items deleted: %s" % decl[:160],
                                    "declaration `%s` does not behave like the same declaration with its cfg-disabled items deleted and its enabled items unannotated: %s" % (decl[:300], ((e or []) + (eeq or []) + [""])[0][:200]), None)
                            # the discriminant rule ranges over the *enabled* items of every declaration: ids that differ from those of the
                            # plain twin (which C15-R8 judges against the oracle) break C15 as well as C16
                            R.check(not e and not eeq, "C15-R9", "corpus-cfg|%s" % w.name, "the enabled items carry the ids the discriminant rule gives them when the disabled ones are ignored: %s" % decl[:160],
                                    "declaration `%s`: the ids of the enabled items are not those the discriminant rule assigns over the enabled items alone: %s" % (decl[:300], ((e or []) + (eeq or []) + [""])[0][:200]), None)
                            continue
                        R.check(not e, rule, "corpus|%s" % w.name, "%d const witnesses hold: %s" % (len(exp), decl[:160]),
                                "declaration `%s` : the generated ids / items differ from the independent oracle or the valid declaration is rejected: %s" % (decl[:300], (e or [""])[0][:200]), None)
                else:
                    for (w, msg) in chunk:
                        e = errs.get(w.name, [])
                        decl = " ".join(x.strip() for x in w.source()[-(len(w.archs) + 1):-1])
                        if is_cfg_family(w):
                            eref = errs.get(w.name + "|ref", [])
                            if not eref:
                                # the reduced declaration is accepted although the oracle rejects it: C15's matter
                                R.note("C16 corpus: reduced twin of %s is accepted although the oracle rejects it; left to C15" % w.name)
                                R.ok("C16-R6", "corpus-reject|%s" % w.name, None, nontrivial=False)
                                continue
                            R.check(bool(e), "C16-R6", "corpus-reject|%s" % w.name, "rejected like the same declaration with the disabled items deleted: %s" % decl[:140],
                                    "declaration `%s` is accepted, but the same declaration with its cfg-disabled items deleted is rejected (%s): a disabled item changed the outcome" % (decl[:300], eref[0][:100]), None)
                            # (a declaration whose enabled items would carry a duplicate or overflowing id is rejected whatever else is written in it)
                            R.check(bool(e), "C15-R9", "corpus-cfg-reject|%s" % w.name, "rejected like the same declaration with the disabled items deleted: %s" % decl[:140],
                                    "declaration `%s` is accepted, but the same declaration with its cfg-disabled items deleted is rejected (%s): a disabled item changed the outcome" % (decl[:300], eref[0][:100]), None)
                            continue
                        # rejected is rejected: the wording of the diagnostic is not part of the property (it is recorded)
                        ok = bool(e)
                        R.check(ok, "C16-R6" if w.name[:2] in ("WF", "WG", "WH", "WJ") else "C15-R8", "corpus-reject|%s" % w.name, "rejected (%s; diagnostic: %s): %s" % (msg, (e or [""])[0][:60], decl[:140]),
                                "declaration `%s` must be rejected at compile time (%s: duplicate id / counting past 255) but is accepted" % (decl[:300], msg), None)
    finally:
        shutil.rmtree(work, ignore_errors=True)
    R.note("corpus: %d valid declarations with const witnesses, %d declarations that must be rejected (tier %s, seed %d)" % (len(good), len(bad), tier, seed))


# ---------------------------------------------------------------------------------------------
# Query corpus (C05-R7 / C16-R7): which archetypes a query is expanded for, decided by rustc's
# type checker on generated client programs.  Inside every per-archetype copy of the closure body
#   * `impl Seen<MatchedArchetype> for Tag<N> {}`  -- one impl per copy; outside, a function bounded by
#     `Tag<N>: Seen<A>` for every expected archetype type-checks iff no expected archetype is missing
#     (iter family only: the find family emits the body twice per archetype),
#   * `allow::<N, MatchedArchetype>()` with `Allowed<N>` implemented for the expected archetypes only
#     type-checks iff no unexpected archetype is matched,
#   * `let _: &T = p;` pins the type each parameter is bound to (OneOf: through an associated type
#     chosen per archetype by the oracle).
# Declarations the property says must be rejected (empty match set, ambiguous OneOf) must fail with
# the generator's message.  The oracle below is a re-statement of the property text.
COMPS = ["Po", "Pos", "PosX", "Vel"]
QWORLDS = {
    "W1": [("Ar", None, ["Po"]), ("Arc", None, ["Po", "Pos"]), ("ArcX", None, ["Pos", "PosX"]), ("Bee", None, ["Po", "Pos", "PosX", "Vel"])],
    "W2": [("Ar", None, ["Po", "Vel"]), ("Arc", None, ["Pos", "Vel"]), ("ArcX", None, ["PosX"]), ("Bee", None, ["Vel"])],
    "W3": [("Ar", None, ["Po", ("Pos", "any()")]), ("Arc", "any()", ["Po", "Pos", "PosX", "Vel"]), ("ArcX", None, ["Pos", ("PosX", "all()")]),
           ("Bee", None, [("Po", "not(all())"), "Vel", ("Pos", "not(any())")])],
    "W4": [("Ar", None, ["Po", "Pos"])],
    "W5": [("Bee", None, ["Vel", "PosX"]), ("ArcX", "not(any())", ["PosX", "Pos", "Po"]), ("Arc", None, ["Pos"]), ("Ar", "any(any())", ["Po"])],
    "W6": [("Ar", None, ["Po"]), ("Arc", None, ["Pos"]), ("ArcX", None, ["PosX"]), ("Bee", None, ["Vel"]), ("BeeX", None, ["Po", "Vel"]), ("ArB", None, ["Pos", "PosX"]), ("Be", None, ["Vel", "Pos"])],
}
KINDS = ["ecs_iter", "ecs_iter_borrow", "ecs_iter_destroy", "ecs_find", "ecs_find_borrow"]


def world_enabled(wname):
    truth = dict(PREDS)
    out = []
    for (an, ap, cs) in QWORLDS[wname]:
        if ap is not None and not truth[ap]:
            continue
        comps = [c if isinstance(c, str) else c[0] for c in cs if isinstance(c, str) or truth[c[1]]]
        out.append((an, comps))
    return out


def world_source(wname):
    lines = ["    ecs_world! {", "        ecs_name!(W);"]
    for (an, ap, cs) in QWORLDS[wname]:
        cl = [c if isinstance(c, str) else "#[cfg(%s)] %s" % (c[1], c[0]) for c in cs]
        lines.append("        %secs_archetype!(%s, %s);" % ("#[cfg(%s)] " % ap if ap else "", an, ", ".join(cl)))
    lines.append("    }")
    return lines


def gen_queries(wname, rng, count, with_cfg):
    archs = [a for a, _ in world_enabled(wname)]
    a_comp = [("c", c, m) for c in COMPS for m in (False, True)]
    a_ent = [("ew",), ("ea",), ("dw",), ("da",)] + [(k, a) for a in archs for k in ("et", "dt")]
    a_of = [("of", cs, False) for n in (2, 3, 4) for cs in itertools.permutations(COMPS, n)]
    out = []
    seen = set()
    guard = 0
    while len(out) < count and guard < count * 50:
        guard += 1
        n = rng.choice([1, 1, 2, 2, 2, 3, 3, 4, 5])
        ps = []
        used = set()
        for _ in range(n):
            r = rng.random()
            p = rng.choice(a_comp if r < 0.5 else (a_ent if r < 0.8 else a_of))
            ids = set(p[1]) if p[0] == "of" else ({p[1]} if p[0] == "c" else {p[0] + (p[1] if len(p) > 1 else "")})
            if ids & used:
                continue
            used |= ids
            pred = None
            if with_cfg and p[0] != "of" and rng.random() < 0.6:
                pred = rng.choice([q for q, _ in PREDS])
                if rng.random() < 0.3:
                    # several #[cfg] attributes on one parameter = their conjunction
                    pred = (pred, rng.choice([q for q, _ in PREDS]))
            ps.append((p, pred))
        if not ps:
            continue
        if with_cfg and all(pr is None for _, pr in ps) and wname not in ("W3", "W5"):
            continue
        key = repr(ps)
        if key in seen:
            continue
        seen.add(key)
        out.append(ps)
    return out


def query_oracle(wname, ps):
    """-> {archetype: {param index: bound component}} for the matched archetypes, or raises Reject."""
    truth = dict(PREDS)
    world = world_enabled(wname)
    live = [(i, p) for i, (p, pred) in enumerate(ps) if all(truth[q] for q in plist(pred))]
    for (an, comps) in world:
        for i, p in live:
            if p[0] == "of" and len([c for c in p[1] if c in comps]) >= 2:
                raise Reject("OneOf parameter is ambiguous")
    res = {}
    for (an, comps) in world:
        ok = True
        binds = {}
        for i, p in live:
            if p[0] == "c":
                ok &= p[1] in comps
            elif p[0] in ("et", "dt"):
                ok &= p[1] == an
            elif p[0] == "of":
                hit = [c for c in p[1] if c in comps]
                ok &= len(hit) == 1
                if hit:
                    binds[i] = hit[0]
        if ok:
            res[an] = binds
    if not res:
        raise Reject("query matched no archetypes in world")
    return res


def reduce_query(ps):
    """the query with every disabled parameter deleted and every #[cfg] removed: ([(p, None)], original indices)"""
    truth = dict(PREDS)
    keep = [(i, p) for i, (p, pred) in enumerate(ps) if all(truth[q] for q in plist(pred))]
    return [(p, None) for _, p in keep], [i for i, _ in keep]


def world_source_reduced(wname):
    lines = ["    ecs_world! {", "        ecs_name!(WR);"]
    for (an, comps) in world_enabled(wname):
        lines.append("        ecs_archetype!(%s, %s);" % (an, ", ".join(comps)))
    lines.append("    }")
    return lines


def param_src(i, p, pred):
    ty = {"ew": "&Entity<_>", "ea": "&EntityAny", "dw": "&EntityDirect<_>", "da": "&EntityDirectAny"}.get(p[0])
    if p[0] == "c":
        ty = ("&mut " if p[2] else "&") + p[1]
    elif p[0] == "et":
        ty = "&Entity<%s>" % p[1]
    elif p[0] == "dt":
        ty = "&EntityDirect<%s>" % p[1]
    elif p[0] == "of":
        ty = "&OneOf<%s>" % ", ".join(p[1])
    return "%sp%d: %s" % ("".join("#[cfg(%s)] " % q for q in plist(pred)), i, ty)


def query_source(n, kind, wname, ps, exp, idxs=None, wty="W"):
    """lines of one witness function (exp None: a declaration that must be rejected)."""
    truth = dict(PREDS)
    idxs = idxs if idxs is not None else list(range(len(ps)))
    params = ", ".join(param_src(idxs[k], p, pred) for k, (p, pred) in enumerate(ps))
    body = []
    tail = []
    if exp is not None:
        if kind.startswith("ecs_iter"):
            body.append("impl Seen<MatchedArchetype> for Tag<%d> {}" % n)
        body.append("allow::<%d, MatchedArchetype>();" % n)
        for k_, (p, pred) in enumerate(ps):
            i = idxs[k_]
            if not all(truth[q] for q in plist(pred)):
                continue
            t = {"ew": "&Entity<MatchedArchetype>", "ea": "&EntityAny", "dw": "&EntityDirect<MatchedArchetype>", "da": "&EntityDirectAny"}.get(p[0])
            if p[0] == "c":
                t = ("&mut " if p[2] else "&") + p[1]
            elif p[0] == "et":
                t = "&Entity<%s>" % p[1]
            elif p[0] == "dt":
                t = "&EntityDirect<%s>" % p[1]
            elif p[0] == "of":
                t = "&<MatchedArchetype as Bound<%d, %d>>::T" % (n, i)
            body.append("let _: %s = p%d;" % (t, i))
        for an, binds in sorted(exp.items()):
            tail.append("    impl Allowed<%d> for %s {}" % (n, an))
            for i, c in sorted(binds.items()):
                tail.append("    impl Bound<%d, %d> for %s { type T = %s; }" % (n, i, an, c))
        if kind.startswith("ecs_iter"):
            tail.append("    const _: fn() = || { fn need<T: %s>() {} need::<Tag<%d>>(); };" % (" + ".join("Seen<%s>" % a for a in sorted(exp)), n))
    if kind == "ecs_iter_destroy":
        body.append("EcsStepDestroy::Continue")
    b = " ".join(body)
    if kind.startswith("ecs_find"):
        call = "let _ = %s!(world, k, |%s| { %s });" % (kind, params, b)
    else:
        call = "%s!(world, |%s| { %s });" % (kind, params, b)
    return ["    pub fn q%d(world: &mut %s, k: EntityAny) { %s }" % (n, wty, call)] + tail


PRELUDE = [
    "    #[allow(unused_imports)] use gecs::prelude::*;",
    "    pub struct Po(pub u32); pub struct Pos(pub u32); pub struct PosX(pub u32); pub struct Vel(pub u32);",
    "    pub struct Tag<const Q: usize>; pub trait Seen<A> {} pub trait Allowed<const Q: usize> {}",
    "    pub trait Bound<const Q: usize, const K: usize> { type T; }",
    "    pub fn allow<const Q: usize, A: Allowed<Q>>() {}",
]


@memo_static
def rule_query_corpus(repo, tier, R):
    import random
    seed = int(os.environ.get("VERIF_SEED", "0") or 0)
    try:
        rlib, deps = base_build(repo)
    except WitnessError as e:
        R.fail("BUILD", "witness-base", str(e), None)
        return
    per_combo = 12 if tier == "quick" else 120
    files = []   # (kind good/bad, lines, index{n: (a,b)}, meta{n: (...)})
    n = 0
    total_good = total_bad = 0
    # thorough: three independent samples
    for wname, rng in [(w_, random.Random(1000 + seed + 7919 * r_)) for r_ in range(1 if tier == "quick" else 3) for w_ in sorted(QWORLDS)]:
        for with_cfg in (False, True):
            for kind in KINDS:
                qs = gen_queries(wname, rng, per_combo, with_cfg)
                good = ["#![forbid(unsafe_code)]", "#![allow(dead_code, unused)]", "pub mod m {"] + PRELUDE + world_source(wname)
                bad = ["#![allow(dead_code, unused)]", "pub mod m {"] + PRELUDE + world_source(wname)
                # reduced twins (C16 is judged differentially): same world / queries with the disabled items deleted
                goodr = ["}", "pub mod mr {"] + PRELUDE + world_source_reduced(wname)
                badr = ["}", "pub mod mr {"] + PRELUDE + world_source_reduced(wname)
                gi, bi, meta = {}, {}, {}
                gri, bri = {}, {}
                for ps in qs:
                    n += 1
                    desc = "%s %s!(|%s|)" % (wname, kind, ", ".join(param_src(i, p, pred) for i, (p, pred) in enumerate(ps)))
                    is_cfg = with_cfg or wname in ("W3", "W5")
                    rps, ridx = reduce_query(ps)
                    try:
                        exp = query_oracle(wname, ps)
                        src = query_source(n, kind, wname, ps, exp)
                        gi[n] = (len(good) + 1, len(good) + len(src))
                        good += src
                        meta[n] = (desc, is_cfg, sorted(exp), None)
                        total_good += 1
                        if is_cfg and rps:
                            srcr = query_source(n, kind, wname, rps, exp, ridx, "WR")
                            gri[n] = (len(goodr) + 1, len(goodr) + len(srcr))
                            goodr += srcr
                    except Reject as e:
                        src = query_source(n, kind, wname, ps, None)
                        bi[n] = (len(bad) + 1, len(bad) + len(src))
                        bad += src
                        meta[n] = (desc, is_cfg, None, str(e))
                        total_bad += 1
                        if is_cfg and rps:
                            srcr = query_source(n, kind, wname, rps, None, ridx, "WR")
                            bri[n] = (len(badr) + 1, len(badr) + len(srcr))
                            badr += srcr
                if gri:
                    off = len(good)
                    good += goodr
                    for q_, (a_, b_) in gri.items():
                        gi[(q_, "ref")] = (a_ + off, b_ + off)
                if bri:
                    off = len(bad)
                    bad += badr
                    for q_, (a_, b_) in bri.items():
                        bi[(q_, "ref")] = (a_ + off, b_ + off)
                good.append("}")
                bad.append("}")
                files.append(("good", good, gi, meta))
                if bi:
                    files.append(("bad", bad, bi, meta))
    work = tempfile.mkdtemp(prefix="qcorpus-", dir=os.path.join(VERIF, ".build"))
    try:
        jobs = []
        for k, (kind, lines, index, meta) in enumerate(files):
            path = os.path.join(work, "q_%d.rs" % k)
            open(path, "w").write("\n".join(lines) + "\n")
            jobs.append((kind, path, index, meta))
        with concurrent.futures.ThreadPoolExecutor(max_workers=12) as ex:
            futs = [(j, ex.submit(compile_file, j[1], rlib, deps)) for j in jobs]
            for (kind, path, index, meta), fu in futs:
                rc, diags = fu.result()
                errs = {}
                stray = []
                for d in diags:
                    owners = set()
                    for l in d["lines"]:
                        for q, (a, b) in index.items():
                            if a <= l <= b:
                                owners.add(q)
                    for q in owners:
                        errs.setdefault(q, []).append(d["message"])
                    if not owners and "aborting due to" not in d["message"]:
                        stray.append(d["message"])
                if stray:
                    R.fail("C05-R8", "qcorpus|scaffold", "the witness scaffold itself does not compile (not attributable to one query): %s" % stray[0][:300], None)
                for q, (a, b) in sorted(index.items(), key=str):
                    if isinstance(q, tuple):
                        continue
                    desc, is_cfg, exp, msg = meta[q]
                    rule = "C16-R7" if is_cfg else "C05-R8"
                    e = errs.get(q, [])
                    if is_cfg and (q, "ref") in index:
                        # differential: the same query with the disabled parameters (and world items) deleted decides what is expected
                        er = errs.get((q, "ref"), [])
                        if kind == "good":
                            if er:
                                R.note("C16 query corpus: the reduced twin of `%s` does not type-check (%s); left to C05" % (desc[:80], er[0][:60]))
                                R.ok(rule, "qcorpus|" + desc, None, nontrivial=False)
                            else:
                                R.check(not e, rule, "qcorpus|" + desc, "behaves like the same query with the disabled parameters deleted (archetypes %s)" % exp,
                                        "%s does not behave like the same query with its cfg-disabled parameters deleted (which is expanded for %s): %s" % (desc, exp, (e or [""])[0][:260]), None)
                                # the parameter list a query acts on is the list of its *enabled* parameters: a decorated query that is not
                                # expanded for the archetypes its enabled parameters select breaks C05 as well as C16
                                R.check(not e, "C05-R10", "qcorpus-cfg|" + desc, "expanded for exactly the archetypes its enabled parameters select (%s)" % exp,
                                        "%s is not expanded for exactly the archetypes its enabled parameters select (%s): %s" % (desc, exp, (e or [""])[0][:260]), None)
                        else:
                            if not er:
                                R.note("C16 query corpus: the reduced twin of `%s` is accepted although the oracle rejects it; left to C05" % desc[:80])
                                R.ok(rule, "qcorpus-reject|" + desc, None, nontrivial=False)
                            else:
                                R.check(bool(e), rule, "qcorpus-reject|" + desc, "rejected like the same query with the disabled parameters deleted",
                                        "%s is accepted, but the same query with its cfg-disabled parameters deleted is rejected (%s)" % (desc, er[0][:120]), None)
                        continue
                    if kind == "good":
                        R.check(not e, rule, "qcorpus|" + desc, "expanded for exactly %s with each parameter bound to that archetype's own column type" % exp,
                                "%s must be expanded for exactly the archetypes %s (oracle: the property text) with every parameter bound to its own column type, but the type checker disagrees: %s" % (desc, exp, (e or [""])[0][:260]), None)
                    else:
                        # an ambiguous OneOf that also leaves nothing matched may be reported either way: it is rejected
                        # rejected is rejected: the wording of the diagnostic is not part of the property (it is recorded)
                        ok = bool(e)
                        R.check(ok, rule, "qcorpus-reject|" + desc, "rejected (%s; diagnostic: %s)" % (msg, (e or [""])[0][:60]),
                                "%s must be rejected at compile time (%s) but is accepted" % (desc, msg), None)
    finally:
        shutil.rmtree(work, ignore_errors=True)
    R.note("query corpus: %d generated queries type-checked against the oracle match set, %d that must be rejected (tier %s, seed %d)" % (total_good, total_bad, tier, seed))
