"""Universal rules on the decision half of the proc-macro crate (ordinary Rust over parsed
data, analysed on its own MIR): C05-R1..R4, C15-R1..R5, C16-R1/R3/R5, C18-R6."""
import re

from .core import where_of, cname
from .norm import N, NL, atom, is_call, subterms, contains, show_atom, strip_generics
from .sym import show
from .r_storage import strip_epochs, is_some, is_none
from .r_storage2 import loop_item


def mfn(ctx, R, path):
    f = ctx.macros.fns.get(path)
    if f is None:
        R.anchor_missing("gecs_macros::" + path)
    return f


def mp(ctx, f):
    return ctx.paths(f, ctx.macex)


def batoms(p, lo=0, hi=10 ** 9):
    return [atom(c) for c in p.conds if c[2] == "branch" and lo <= c[4] < hi]


def describe(ats):
    return " & ".join(show_atom(a) for a in ats) or "true"


def item_of(V):
    """X if V is the payload of Some(next(loopvar(init=into_iter(X))))"""
    return loop_item(V)


def is_item(V):
    return item_of(V) is not None


def switch_val(c):
    """(discriminated value, taken variant index or ('not', ...))"""
    V = N(c[0])
    if V[0] == "discr":
        return V[1], c[1]
    return None, None


def enum_variants(ctx, path):
    adt = ctx.macros.adts.get(path)
    if adt is None:
        return None
    return [v["n"] for v in adt["variants"]]


def loop_markers(p):
    return [(i, e[1]) for i, e in enumerate(p.effects) if e[0] == "loop"]


def calls(p, name, lo=0, hi=10 ** 9):
    out = []
    for i, e in enumerate(p.effects):
        if e[0] == "call" and lo <= i < hi:
            cn = cname(e[2])
            if cn == name or cn.endswith("::" + name) or cn.endswith(name):
                out.append((i, e))
    return out


# ----------------------------------------------------------------------------------
# C15-R1 / C15-R2: the id step function
# ----------------------------------------------------------------------------------
def rule_advance_id(ctx, R):
    f = mfn(ctx, R, "data::advance_attribute_id")
    if f is None:
        return
    ps = mp(ctx, f)
    key = "advance_attribute_id"
    if ps is None:
        R.fail("SHAPE", key, "path enumeration failed", where_of(f), fn=f.key)
        return
    item, ids, last = ("arg", 1), ("arg", 2), ("arg", 3)
    idcall = None
    oks = []
    for p in ps:
        if p.end != "return":
            R.fail("C15-R1", key + "|exit", "advance_attribute_id has a non-returning path (%s)" % (p.end,), where_of(f), fn=f.key)
            continue
        ret = N(p.ret)
        if ret[0] == "agg" and ret[3] == "Ok":
            oks.append((p, ret))
    origins = set()
    for (p, ret) in oks:
        pay = ret[4][0][1]
        x = pay[4][0][1] if pay[0] == "agg" and pay[3] == "Some" else None
        if x is None:
            R.fail("C15-R1", key + "|ok-shape", "Ok path returns %s; expected Ok(Some(next))" % show(ret), where_of(f), fn=f.key)
            continue
        sw = [(switch_val(c)) for c in p.conds if c[2] == "branch"]
        sw = [(v, vals) for (v, vals) in sw if v is not None]
        # uniqueness: guarded by the None edge of HashMap::insert(ids, next, _)
        ins = [(v, vals) for (v, vals) in sw if is_call(v, "HashMap::insert")]
        okins = len(ins) == 1 and ins[0][0][2][0] == ids and ins[0][0][2][1] == x and ins[0][1] in (("not", 1), (0,))
        R.check(okins, "C15-R2", key + "|ok-requires-fresh-id", "Ok(Some(next)) only on the None edge of ids.insert(next, _)",
                "an id is returned without having been inserted as fresh into the id map: guards %s" % [show(v)[:80] for v, _ in sw], where_of(f), fn=f.key)
        rest = [(v, vals) for (v, vals) in sw if not is_call(v, "HashMap::insert")]
        # which origin?
        def is_id_call(v):
            return is_call(v, "HasAttributeId::id") and v[2] == (item,)
        kind = None
        if x[0] == "vfield" and x[1][0] == "vdown" and x[1][2] == "Some" and is_id_call(x[1][1]):
            kind = "explicit"
            okg = len(rest) == 1 and is_id_call(rest[0][0]) and rest[0][1] == (1,)
        elif x[0] == "vfield" and x[1][0] == "vdown" and x[1][2] == "Some" and is_call(x[1][1], "checked_add"):
            kind = "previous+1"
            ca = x[1][1]
            okadd = ca[2][1] == ("const", 1) and ca[2][0] == ("vfield", ("vdown", last, "Some"), "0")
            okg = okadd and len(rest) == 3 and is_id_call(rest[0][0]) and rest[0][1] in (("not", 1), (0,)) and rest[1][0] == last and rest[1][1] == (1,) and rest[2][0] == ca and rest[2][1] == (1,)
        elif x == ("const", 0):
            kind = "zero"
            okg = len(rest) == 2 and is_id_call(rest[0][0]) and rest[0][1] in (("not", 1), (0,)) and rest[1][0] == last and rest[1][1] in (("not", 1), (0,))
        else:
            okg = False
        origins.add(kind)
        R.check(bool(okg), "C15-R1", key + "|origin(%s)" % kind, {"explicit": "next = explicit id iff the item carries one", "previous+1": "next = checked_add(last, 1) iff no explicit id and a previous id exists", "zero": "next = 0 iff no explicit id and no previous id"}.get(kind, "?"),
                "Ok(Some(%s)) under guards %s does not match the discriminant rule (explicit value, else previous + 1, else 0)" % (show(x), [(show(v)[:60], vals) for v, vals in rest]), where_of(f), fn=f.key)
    R.check(origins == {"explicit", "previous+1", "zero"} and len(oks) == 3, "C15-R1", key + "|three-origins", "exactly the three origins of the discriminant rule",
            "Ok paths have origins %s (%d paths); expected exactly explicit / previous+1 / zero" % (sorted(str(o) for o in origins), len(oks)), where_of(f), fn=f.key)
    # overflow: checked_add None -> Err and nothing else
    for p in ps:
        if p.end != "return":
            continue
        sw = [switch_val(c) for c in p.conds if c[2] == "branch"]
        for (v, vals) in sw:
            if v is not None and is_call(v, "checked_add") and vals in (("not", 1), (0,)):
                ret = N(p.ret)
                ok = ret[0] == "agg" and ret[3] == "Err" and contains(ret, lambda x: x == ("str", "attribute id may not exceed 255"))
                R.check(ok, "C15-R1", key + "|overflow-is-error", "counting past 255 is a compile error", "on checked_add overflow the function returns %s" % show(ret)[:120], where_of(f), fn=f.key)
        for (v, vals) in sw:
            if v is not None and is_call(v, "HashMap::insert") and vals == (1,):
                ret = N(p.ret)
                R.check(ret[0] == "agg" and ret[3] == "Err", "C15-R2", key + "|duplicate-is-error", "a duplicate id is a compile error", "on a duplicate id the function returns %s" % show(ret)[:120], where_of(f), fn=f.key)


# ----------------------------------------------------------------------------------
# C15-R3 threading in DataWorld::new (+ C16-R4 disabled items consume nothing)
# ----------------------------------------------------------------------------------
def rule_dataworld(ctx, R):
    f = mfn(ctx, R, "data::DataWorld::new")
    if f is None:
        return
    ps = mp(ctx, f)
    key = "DataWorld::new"
    if ps is None:
        R.fail("SHAPE", key, "path enumeration failed", where_of(f), fn=f.key)
        return
    seen = {"arch-skip": 0, "comp-skip": 0, "comp-push": 0, "arch-push": 0}
    for p in ps:
        lm = loop_markers(p)
        if not lm:
            continue
        outer_i, outer_h = lm[0]
        inner = lm[1] if len(lm) > 1 else None
        # outer iterator: drain(..) of parse.inner.archetypes, front to back
        nx = calls(p, "next", outer_i)
        if not nx:
            continue
        it = N(nx[0][1][3][0])
        src = it[3][2][0] if it[0] == "loopvar" and it[3] is not None and is_call(it[3], "into_iter") else None
        oksrc = src is not None and is_call(src, "Vec::drain") and "archetypes" in show(src[2][0])
        R.check(oksrc, "C15-R3", key + "|archetype-order", "archetypes are visited front to back (Vec::drain(..))", "archetype loop iterates %s" % show(it)[:140], where_of(f), fn=f.key)
        adv = calls(p, "advance_attribute_id")
        ev = calls(p, "evaluate_cfgs")
        pushes = calls(p, "Vec::push")
        ends_outer = isinstance(p.end, tuple) and p.end[0] == "backedge" and p.end[1] == outer_h
        ends_inner = inner is not None and isinstance(p.end, tuple) and p.end[0] == "backedge" and p.end[1] == inner[1]
        ats = batoms(p)
        # archetype disabled -> continue before any id / push
        if ends_outer and inner is None:
            dis = [a for a in ats if a[0][0] == "bool" and is_call(a[0][1], "evaluate_cfgs") and a[1] is False]
            if dis:
                seen["arch-skip"] += 1
                R.check(not adv and not pushes, "C16-R4", key + "|disabled-archetype-consumes-nothing", "a cfg-disabled archetype is skipped before id assignment and before any push",
                        "a disabled archetype still reaches %s" % [cname(e[2]) for _, e in adv + pushes], where_of(f), fn=f.key)
        threaded = all(len(x[1][3]) >= 3 for x in adv)
        if adv and not threaded:
            R.fail("C15-R3", key + "|threading-shape", "advance_attribute_id is no longer called with (item, id map, previous id): the previous id is not threaded through the loops, so `previous + 1` cannot be the rule applied", where_of(f, adv[0][1][5]), fn=f.key)
        if adv and threaded:
            a0 = adv[0][1]
            ids, last = N(a0[3][1]), N(a0[3][2])
            okids = ids[0] == "loopvar" and ids[1] == outer_h and ids[3] is not None and is_call(ids[3], "HashMap::new")
            R.check(okids, "C15-R3", key + "|archetype-id-map-shared", "one id map for all archetypes, created before the loop", "archetype ids are checked against %s" % show(ids)[:100], where_of(f), fn=f.key)
            oklast = last[0] == "loopvar" and last[1] == outer_h and last[3] == ("agg", "adt", "std::option::Option", "None", (), 0)
            R.check(oklast, "C15-R3", key + "|archetype-last-carried", "previous archetype id is loop carried, starting at None", "previous id passed is %s" % show(last)[:100], where_of(f), fn=f.key)
        if adv:
            a0 = adv[0][1]
            # the enabled check precedes the id call
            pre = [a for a in batoms(p, 0, adv[0][0] + 1) if a[0][0] == "bool" and is_call(a[0][1], "evaluate_cfgs") and a[1] is True]
            R.check(bool(pre), "C16-R4", key + "|archetype-id-after-cfg", "an archetype id is only assigned after evaluate_cfgs(..) == true", "advance_attribute_id for an archetype is not guarded by evaluate_cfgs", where_of(f, a0[5]), fn=f.key)
        if inner is not None and len(adv) >= 2 and threaded:
            a1 = adv[1][1]
            ids, last = N(a1[3][1]), N(a1[3][2])
            # fresh per archetype: init created after the outer loop marker
            okids = ids[0] == "loopvar" and ids[1] == inner[1] and ids[3] is not None and is_call(ids[3], "HashMap::new")
            hm = [i for i, e in calls(p, "HashMap::new") if outer_i < i < inner[0]]
            R.check(okids and bool(hm), "C15-R3", key + "|component-id-map-fresh", "component ids restart per archetype: fresh id map inside each archetype iteration",
                    "component ids are checked against %s (a map created outside the archetype iteration would make ids collide across archetypes)" % show(ids)[:100], where_of(f), fn=f.key)
            oklast = last[0] == "loopvar" and last[1] == inner[1] and last[3] == ("agg", "adt", "std::option::Option", "None", (), 0)
            R.check(oklast, "C15-R3", key + "|component-last-restarts", "previous component id restarts at None per archetype", "previous component id passed is %s" % show(last)[:100], where_of(f), fn=f.key)
        if inner is not None and len(adv) >= 2:
            a1 = adv[1][1]
            pre = [a for a in batoms(p, adv[0][0], adv[1][0] + 1) if a[0][0] == "bool" and is_call(a[0][1], "evaluate_cfgs") and a[1] is True]
            R.check(bool(pre), "C16-R4", key + "|component-id-after-cfg", "a component id is only assigned after evaluate_cfgs(..) == true", "advance_attribute_id for a component is not guarded by evaluate_cfgs", where_of(f, a1[5]), fn=f.key)
        if ends_inner:
            dis = [a for a in batoms(p, inner[0]) if a[0][0] == "bool" and is_call(a[0][1], "evaluate_cfgs") and a[1] is False]
            inner_adv = [x for x in adv if x[0] > inner[0]]
            inner_push = [x for x in pushes if x[0] > inner[0]]
            if dis:
                seen["comp-skip"] += 1
                R.check(not inner_adv and not inner_push, "C16-R4", key + "|disabled-component-consumes-nothing", "a cfg-disabled component is skipped before id assignment and push", "a disabled component still reaches id assignment or push", where_of(f), fn=f.key)
            elif inner_push:
                seen["comp-push"] += 1
                v = N(inner_push[0][1][3][1])
                d = dict(v[4]) if v[0] == "agg" else {}
                idv = d.get("id")
                okid = idv is not None and is_call(idv, "Option::unwrap") and contains(idv, lambda x: is_call(x, "advance_attribute_id") and len(x[2]) >= 2 and x[2][1][0] == "loopvar" and x[2][1][1] == inner[1])
                R.check(okid, "C15-R4", key + "|component-id-stored", "DataComponent.id = the id just assigned", "DataComponent.id is %s" % show(idv)[:120], where_of(f), fn=f.key)
                # loop carried update
                lastloc = None
                a1 = inner_adv[0][1]
                lastv = N(a1[3][2]) if len(a1[3]) >= 3 else ("none",)
                if lastv[0] == "loopvar":
                    fin = (p.store or {}).get(("local", 0, lastv[2]))
                    okc = fin is not None and contains(N(fin), lambda x: is_call(x, "advance_attribute_id"))
                    R.check(okc, "C15-R3", key + "|component-last-updated", "previous component id <- id just assigned", "the loop-carried previous id is %s at the end of the iteration" % (show(N(fin))[:100] if fin else None), where_of(f), fn=f.key)
        if ends_outer and inner is not None and pushes:
            last_push = pushes[-1][1]
            v = N(last_push[3][1])
            if v[0] == "agg" and v[2].endswith("DataArchetype"):
                seen["arch-push"] += 1
                d = dict(v[4])
                idv = d.get("id")
                okid = idv is not None and is_call(idv, "Option::unwrap") and contains(idv, lambda x: is_call(x, "advance_attribute_id") and len(x[2]) >= 2 and x[2][1][0] == "loopvar" and x[2][1][1] == outer_h)
                R.check(okid, "C15-R4", key + "|archetype-id-stored", "DataArchetype.id = the id just assigned", "DataArchetype.id is %s" % show(idv)[:120], where_of(f), fn=f.key)
                a0 = adv[0][1]
                lastv = N(a0[3][2]) if len(a0[3]) >= 3 else ("none",)
                if lastv[0] == "loopvar":
                    fin = (p.store or {}).get(("local", 0, lastv[2]))
                    okc = fin is not None and contains(N(fin), lambda x: is_call(x, "advance_attribute_id"))
                    R.check(okc, "C15-R3", key + "|archetype-last-updated", "previous archetype id <- id just assigned", "the loop-carried previous archetype id is %s" % (show(N(fin))[:100] if fin else None), where_of(f), fn=f.key)
    for k, n in seen.items():
        R.check(n >= 1, "C15-R3", key + "|path-kind(%s)" % k, "path kind %s present" % k, "expected path kind %s not found in DataWorld::new (shape changed; fail closed)" % k, where_of(f), fn=f.key)


# ----------------------------------------------------------------------------------
# cfg lookups: C16-R3
# ----------------------------------------------------------------------------------
def rule_cfg_lookup(ctx, R):
    for path in ("data::evaluate_cfgs", "generate::query::is_cfg_enabled"):
        f = mfn(ctx, R, path)
        if f is None:
            continue
        ps = mp(ctx, f)
        key = path.split("::")[-1]
        if ps is None or len(ps) != 3:
            R.fail("C16-R3", key + "|paths", "expected the three paths of a conjunction loop (exhausted->true, item false->false, item true->continue); found %s" % (None if ps is None else len(ps)), where_of(f), fn=f.key)
            continue
        kinds = set()
        for p in ps:
            ats = batoms(p)
            look = [a for a in ats if a[0][0] == "bool" and a[0][1][0] == "load" and contains(a[0][1], lambda x: is_call(x, "HashMap::get"))]
            if p.end == "return" and N(p.ret) == ("const", True):
                kinds.add("true")
                R.check(not look, "C16-R3", key + "|true-at-exhaustion", "true only when every cfg was looked up true", "returns true on a path that saw %s" % describe(look), where_of(f), fn=f.key)
            elif p.end == "return" and N(p.ret) == ("const", False):
                kinds.add("false")
                R.check(len(look) == 1 and look[0][1] is False, "C16-R3", key + "|false-iff-some-false", "false as soon as one cfg is false", "returns false under %s" % describe(ats), where_of(f), fn=f.key)
            elif isinstance(p.end, tuple) and p.end[0] == "backedge":
                kinds.add("continue")
                R.check(len(look) == 1 and look[0][1] is True, "C16-R3", key + "|continue-iff-true", "continues iff this cfg is true", "continues under %s" % describe(ats), where_of(f), fn=f.key)
            for a in look:
                # key = to_string(item.predicate) in the map argument
                g = [x for x in subterms(a[0][1]) if is_call(x, "HashMap::get")][0]
                k = g[2][1]
                okk = is_call(k, "to_string") and contains(k, lambda x: x[0] in ("load", "ref") and x[1][0] == "field" and x[1][2] == "predicate" and contains(x, is_item))
                okm = g[2][0] in (("arg", 1), ("arg", 2))
                R.check(okk and okm, "C16-R3", key + "|lookup-key", "lookup key = to_string(cfg.predicate) of the item at hand", "lookup is %s" % show(g)[:160], where_of(f), fn=f.key)
        R.check(kinds == {"true", "false", "continue"}, "C16-R3", key + "|conjunction", "conjunction over all cfgs", "path kinds %s" % sorted(kinds), where_of(f), fn=f.key)
    # writer: ParseCfgDecorated::parse
    f = mfn(ctx, R, "<parse::cfg::ParseCfgDecorated<T> as syn::parse::Parse>::parse")
    if f is None:
        return
    ps = mp(ctx, f)
    key = "ParseCfgDecorated::parse"
    body = [p for p in ps or () if isinstance(p.end, tuple) and p.end[0] == "backedge"]
    R.check(len(body) == 1, "C16-R3", key + "|loop", "one insertion loop", "found %d loop bodies" % len(body), where_of(f), fn=f.key)
    for p in body:
        ins = calls(p, "HashMap::insert")
        ok = len(ins) == 1
        if ok:
            e = ins[0][1]
            k, v = N(e[3][1]), N(e[3][2])
            itz = None
            for x in subterms(k):
                it = item_of(x)
                if it is not None:
                    itz = it
            okzip = itz is not None and is_call(itz, "zip") and is_call(itz[2][0], "Vec::drain") and contains(itz[2][0], lambda x: is_call(x, "collect_all_cfg_predicates"))
            okk = is_call(k, "to_string") and contains(k, lambda x: x[0] == "vfield" and x[2] == "0" and is_item(x[1]))
            okv = v[0] == "vfield" and v[2] == "1" and is_item(v[1])
            R.check(okzip and okk and okv, "C16-R3", key + "|insert", "cfg_lookup[to_string(predicate_i)] = state_i over zip(predicates, states)",
                    "insert(%s, %s) over %s; expected (to_string(pair.0), pair.1) over zip(collect_all_cfg_predicates(inner).drain(..), states)" % (show(k)[:100], show(v)[:60], show(itz)[:100] if itz else None), where_of(f, e[5]), fn=f.key)
            # the length assertion guards the loop
            ats = batoms(p)
            okl = any(a[0][0] == "cmp" and a[0][1] == "Eq" and a[1] and all(is_call(x, "Vec::len") for x in (a[0][2], a[0][3])) for a in ats)
            R.check(okl, "C16-R3", key + "|len-assert", "predicates.len() == states.len() asserted before zipping", "no length equality guards the zip", where_of(f), fn=f.key)


# ----------------------------------------------------------------------------------
# collectors: C16-R1
# ----------------------------------------------------------------------------------
def rule_collectors(ctx, R):
    # (a) dedupe + first-appearance order in both collectors
    for path in ("parse::query::get_cfg_predicates", "<parse::world::ParseEcsWorld as parse::cfg::HasCfgPredicates>::collect_all_cfg_predicates"):
        f = mfn(ctx, R, path)
        if f is None:
            continue
        ps = mp(ctx, f)
        key = path.split("::")[-1] if "get_cfg" in path else "ParseEcsWorld::collect_all_cfg_predicates"
        npush = 0
        for p in ps or ():
            pushes = calls(p, "Vec::push")
            ins = calls(p, "HashSet::insert")
            for (i, e) in pushes:
                npush += 1
                val = N(e[3][1], clone=True)
                pre = [a for a in batoms(p, 0, i + 1) if a[0][0] == "bool" and is_call(a[0][1], "HashSet::insert")]
                ok = bool(pre) and pre[-1][1] is True
                if ok:
                    hk = pre[-1][0][1][2][1]
                    ok = is_call(hk, "to_string") and strip_epochs(N(hk[2][0], clone=True)) == strip_epochs(val)
                R.check(ok, "C16-R1", key + "|push-iff-first-seen", "a predicate is pushed iff HashSet::insert(to_string(predicate)) says it is new", "push of %s is guarded by %s" % (show(val)[:80], describe(pre)), where_of(f, e[5]), fn=f.key)
            if ins and not pushes and isinstance(p.end, tuple):
                pre = [a for a in batoms(p) if a[0][0] == "bool" and is_call(a[0][1], "HashSet::insert")]
                R.check(bool(pre) and pre[-1][1] is False, "C16-R1", key + "|skip-iff-seen", "an already seen predicate is skipped", "path without push under %s" % describe(pre), where_of(f), fn=f.key)
        R.check(npush >= 1, "C16-R1", key + "|pushes", "collector pushes", "collector never pushes", where_of(f), fn=f.key)
    # (b) the three query impls delegate to get_cfg_predicates(&self.params)
    for ty in ("ParseQueryFind", "ParseQueryIter", "ParseQueryIterDestroy"):
        f = mfn(ctx, R, "<parse::query::%s as parse::cfg::HasCfgPredicates>::collect_all_cfg_predicates" % ty)
        if f is None:
            continue
        ps = mp(ctx, f)
        ok = ps is not None and len(ps) == 1 and is_call(N(ps[0].ret), "get_cfg_predicates") and "params" in show(N(ps[0].ret))
        R.check(ok, "C16-R1", ty + "|delegates", "delegates to the single get_cfg_predicates(&self.params)", "%s::collect_all_cfg_predicates returns %s" % (ty, show(N(ps[0].ret))[:100] if ps else None), where_of(f), fn=f.key)
    # (c) expand side and impl side use the same T for each entry kind (trait coherence then gives the same collector)
    pairs = {}
    for path, f in ctx.macros.fns.items():
        m = re.match(r"^__(expand|impl)_ecs_(\w+)$", path)
        if not m:
            continue
        side, kind = m.group(1), m.group(2)
        tys = set()
        for b in f.blocks:
            t = b["t"]
            if t["k"] == "call" and not t["f"].get("indirect"):
                for a in t["f"].get("args", []):
                    for ty in re.findall(r"parse::(?:query|world)::(Parse\w+)", a):
                        tys.add(ty)
        pairs.setdefault(kind, {})[side] = tys
    n = 0
    for kind, sides in sorted(pairs.items()):
        if "expand" in sides and "impl" in sides:
            n += 1
            R.check(sides["expand"] == sides["impl"] and len(sides["expand"]) == 1, "C16-R1", "entry(%s)|same-type" % kind, "__expand_ecs_%s and __impl_ecs_%s parse the same %s" % (kind, kind, sorted(sides["expand"])),
                    "__expand_ecs_%s collects predicates of %s but __impl_ecs_%s zips the states with predicates of %s" % (kind, sorted(sides["expand"]), kind, sorted(sides["impl"])), None)
    R.check(n == 6, "C16-R1", "entry|count", "six entry kinds paired", "found %d expand/impl pairs (expected 6)" % n, None)
    # (d) the chain generators take the predicates from the same trait method
    for g in ("generate::cfg::generate_cfg_checks_outer", "generate::cfg::generate_cfg_checks_inner"):
        f = mfn(ctx, R, g)
        if f is None:
            continue
        n2 = 0
        for b in f.blocks:
            t = b["t"]
            if t["k"] == "call" and not t["f"].get("indirect") and t["f"]["path"].endswith("HasCfgPredicates::collect_all_cfg_predicates"):
                n2 += 1
        R.check(n2 == 1, "C16-R1", g.split("::")[-1] + "|collector", "predicates come from HasCfgPredicates::collect_all_cfg_predicates(source)", "%s calls the collector %d times" % (g, n2), where_of(f), fn=f.key)


# ----------------------------------------------------------------------------------
# C05-R2 / R3: contains_component, bind_one_of
# ----------------------------------------------------------------------------------
def rule_contains_component(ctx, R):
    f = mfn(ctx, R, "data::DataArchetype::contains_component")
    if f is None:
        return
    ps = mp(ctx, f)
    key = "contains_component"
    if ps is None or len(ps) != 3:
        R.fail("C05-R2", key + "|paths", "expected three paths (exhausted->false, equal->true, unequal->continue); found %s" % (None if ps is None else len(ps)), where_of(f), fn=f.key)
        return
    for p in ps:
        cmpc = [e for _, e in calls(p, "eq")] + [e for _, e in calls(p, "ne")]
        ats = batoms(p)
        eqs = [a for a in ats if a[0][0] == "cmp" and a[0][1] == "Eq"]
        for e in cmpc:
            callee = e[8]
            st = callee.get("self_ty", "") if callee else ""
            okc = callee is not None and callee.get("trait") == "std::cmp::PartialEq" and st in ("std::string::String", "str", "&str")
            R.check(okc, "C05-R2", key + "|whole-string-equality", "names compared with <String as PartialEq>::eq (exact, whole string)", "component names are compared with %s on %s" % (e[2], st), where_of(f, e[5]), fn=f.key)
            a0, a1 = N(e[3][0]), N(e[3][1])
            okargs = contains(a0, lambda x: x[0] in ("load", "ref") and x[1][0] == "field" and x[1][2] == "name" and contains(x, is_item)) and is_call(a1, "to_string") and a1[2][0] == ("arg", 2)
            R.check(okargs, "C05-R2", key + "|operands", "compares component.name of the item at hand with the queried name", "compares %s with %s" % (show(a0)[:80], show(a1)[:80]), where_of(f, e[5]), fn=f.key)
        others = [e for i, e in enumerate(p.effects) if e[0] == "call" and any(cname(e[2]).endswith(x) for x in ("starts_with", "ends_with", "contains", "eq_ignore_ascii_case", "find", "to_lowercase", "to_uppercase"))]
        R.check(not others, "C05-R2", key + "|no-fuzzy-match", "no prefix/substring/case-insensitive matching", "uses %s" % [cname(e[2]) for e in others], where_of(f), fn=f.key)
        if p.end == "return":
            ret = N(p.ret)
            if ret == ("const", True):
                R.check(len(eqs) == 1 and eqs[0][1] is True, "C05-R2", key + "|true-iff-equal", "true iff some comparison is true", "returns true under %s" % describe(ats), where_of(f), fn=f.key)
            else:
                R.check(ret == ("const", False) and not eqs, "C05-R2", key + "|false-at-exhaustion", "false only after all components were compared", "returns %s under %s" % (show(ret), describe(ats)), where_of(f), fn=f.key)
        else:
            R.check(len(eqs) == 1 and eqs[0][1] is False, "C05-R2", key + "|continue-iff-unequal", "continues iff unequal", "continues under %s" % describe(ats), where_of(f), fn=f.key)
    # iterates over all components
    nx = calls(ps[0], "next")
    it = N(nx[0][1][3][0]) if nx else None
    ok = it is not None and it[0] == "loopvar" and it[3] is not None and "components" in show(it[3]) and is_call(it[3], "into_iter") and is_call(it[3][2][0], "slice::iter")
    R.check(ok, "C05-R2", key + "|all-components", "loops over every component of the archetype", "iterates %s" % (show(it)[:120] if it else None), where_of(f), fn=f.key)


def rule_bind_one_of(ctx, R):
    f = mfn(ctx, R, "generate::query::bind_one_of")
    if f is None:
        return
    ps = mp(ctx, f)
    key = "bind_one_of"
    if ps is None or len(ps) != 4:
        R.fail("C05-R3", key + "|paths", "expected four paths (exhausted, no-hit, first-hit, second-hit); found %s" % (None if ps is None else len(ps)), where_of(f), fn=f.key)
        return
    kinds = set()
    for p in ps:
        ats = batoms(p)
        hit = [a for a in ats if a[0][0] == "bool" and is_call(a[0][1], "contains_component")]
        for a in hit:
            c = a[0][1]
            okargs = c[2][0] == ("arg", 1) and is_item(c[2][1])
            R.check(okargs, "C05-R3", key + "|probe", "probes contains_component(archetype, arg) for the argument at hand", "probe is %s" % show(c)[:120], where_of(f), fn=f.key)
        found_sw = [(v, vals) for (v, vals) in (switch_val(c) for c in p.conds if c[2] == "branch") if v is not None and v[0] == "loopvar"]
        if p.end == "return":
            ret = N(p.ret)
            if ret[0] == "agg" and ret[3] == "Ok":
                kinds.add("exhausted")
                pay = ret[4][0][1]
                ok = not hit and is_call(pay, "Option::map") and pay[2][0][0] == "loopvar" and pay[2][0][3] == ("agg", "adt", "std::option::Option", "None", (), 0)
                R.check(ok, "C05-R3", key + "|result", "at exhaustion returns Ok(found.map(Component)) with found initially None", "returns %s under %s" % (show(ret)[:120], describe(ats)), where_of(f), fn=f.key)
            else:
                kinds.add("ambiguous")
                ok = ret[0] == "agg" and ret[3] == "Err" and len(hit) == 1 and hit[0][1] is True and found_sw and found_sw[0][1] == (1,)
                R.check(bool(ok), "C05-R3", key + "|second-hit-is-error", "a second matching component is an ambiguity error", "Err returned under %s" % describe(ats), where_of(f), fn=f.key)
        else:
            if hit and hit[0][1] is False:
                kinds.add("no-hit")
                # found unchanged
            elif hit and hit[0][1] is True:
                kinds.add("first-hit")
                ok = bool(found_sw) and found_sw[0][1] in (("not", 1), (0,))
                lv = found_sw[0][0] if found_sw else None
                fin = (p.store or {}).get(("local", 0, lv[2])) if lv else None
                okf = fin is not None and N(fin, clone=True)[0] == "agg" and N(fin, clone=True)[3] == "Some" and contains(N(fin, clone=True), is_item)
                R.check(ok and okf, "C05-R3", key + "|first-hit-recorded", "first hit: found <- Some(arg)", "first hit leaves found = %s" % (show(N(fin))[:100] if fin else None), where_of(f), fn=f.key)
    R.check(kinds == {"exhausted", "ambiguous", "no-hit", "first-hit"}, "C05-R3", key + "|kinds", "all four path kinds present", "path kinds %s" % sorted(kinds), where_of(f), fn=f.key)
    nx = calls(ps[0], "next")
    it = N(nx[0][1][3][0]) if nx else None
    ok = it is not None and it[0] == "loopvar" and it[3] is not None and is_call(it[3], "into_iter") and is_call(it[3][2][0], "slice::iter") and it[3][2][0][2][0] == ("arg", 2)
    R.check(ok, "C05-R3", key + "|all-args", "loops over every OneOf argument", "iterates %s" % (show(it)[:120] if it else None), where_of(f), fn=f.key)


# ----------------------------------------------------------------------------------
# C05-R1: bind_query_params (+ C16-R4 !enabled disjunct, C16-R5)
# ----------------------------------------------------------------------------------
ALWAYS = ("EntityWild", "EntityAny", "EntityDirectWild", "EntityDirectAny")
NAMED = ("Entity", "EntityDirect")


def rule_bind_query_params(ctx, R):
    f = mfn(ctx, R, "generate::query::bind_query_params")
    if f is None:
        return
    ps = mp(ctx, f)
    key = "bind_query_params"
    variants = enum_variants(ctx, "parse::query::ParseQueryParamType")
    if ps is None or variants is None:
        R.fail("SHAPE", key, "path enumeration failed or enum ParseQueryParamType missing", where_of(f), fn=f.key)
        return
    seen = {}
    for p in ps:
        lm = loop_markers(p)
        if len(lm) < 1:
            continue
        outer_i, outer_h = lm[0]
        # bound.clear() first thing in each archetype iteration
        if len(lm) >= 2:
            inner_i, inner_h = lm[1]
            clr = [i for i, e in calls(p, "Vec::clear") if outer_i < i < inner_i]
            R.check(bool(clr), "C05-R1", key + "|clear-per-archetype", "bound.clear() at the start of every archetype iteration", "bound is not cleared before the parameter loop of an archetype", where_of(f), fn=f.key)
        else:
            continue
        pushes = [(i, e) for i, e in calls(p, "Vec::push") if i > inner_i]
        ats = batoms(p, inner_i)
        sw = [(switch_val(c)) for c in p.conds if c[2] == "branch" and c[4] >= inner_i]
        kind_sw = [(v, vals) for (v, vals) in sw if v is not None and v[0] == "load" and v[1][0] == "field" and v[1][2] == "param_type"]
        ends_inner = isinstance(p.end, tuple) and p.end[0] == "backedge" and p.end[1] == inner_h
        if not kind_sw:
            # inner loop exhausted: insert iff bound.len() == params.len()
            if isinstance(p.end, tuple) and p.end[1] == outer_h:
                ins = [(i, e) for i, e in calls(p, "HashMap::insert") if i > inner_i]
                leq = [a for a in ats if a[0][0] == "cmp" and a[0][1] == "Eq" and is_call(a[0][2], "Vec::len") and is_call(a[0][3], "slice::len") and a[0][3][2][0] == ("arg", 2)]
                okg = len(leq) == 1 and (bool(ins) == leq[0][1])
                R.check(okg, "C05-R1", key + "|insert-iff-all-bound(%s)" % ("insert" if ins else "skip"), "result.insert(archetype) iff bound.len() == params.len()",
                        "archetype is %s under %s" % ("inserted" if ins else "skipped", describe(ats)), where_of(f), fn=f.key)
                for (i, e) in ins:
                    k = N(e[3][1], clone=True)
                    okk = k[0] in ("load", "ref") and k[1][0] == "field" and k[1][2] == "name" and contains(k, is_item)
                    R.check(okk, "C05-R1", key + "|insert-key", "keyed by the archetype's name", "insert key is %s" % show(k)[:100], where_of(f, e[5]), fn=f.key)
            continue
        vals = kind_sw[0][1]
        if not vals or vals[0] == "not":
            continue
        vname = variants[vals[0]] if vals[0] < len(variants) else str(vals[0])
        en = [a for a in ats if a[0][0] == "bool" and a[0][1][0] == "load" and a[0][1][1][0] == "field" and a[0][1][1][2] == "is_cfg_enabled"]
        if vname in ALWAYS:
            seen[vname] = seen.get(vname, 0) + 1
            R.check(ends_inner and len(pushes) == 1 and not en, "C05-R1", key + "|%s" % vname, "%s parameters bind to every archetype" % vname, "%s arm: pushes=%d guards=%s end=%s" % (vname, len(pushes), describe(ats[1:]), p.end), where_of(f), fn=f.key)
        elif vname == "Component" or vname in NAMED:
            seen[vname] = seen.get(vname, 0) + 1
            if vname == "Component":
                test = [a for a in ats if a[0][0] == "bool" and is_call(a[0][1], "contains_component")]
                for a in test:
                    c = a[0][1]
                    okargs = is_item(c[2][0]) and contains(c[2][1], lambda x: x[0] in ("load", "ref") and "Component" in show(x) and "param_type" in show(x))
                    R.check(okargs, "C05-R1", key + "|Component-probe", "probes contains_component(this archetype, this parameter's component)", "probe is %s" % show(c)[:160], where_of(f), fn=f.key)
            else:
                test = [a for a in ats if a[0][0] == "cmp" and a[0][1] == "Eq" and contains(a[0][2], lambda x: x[0] in ("load", "ref") and x[1][0] == "field" and x[1][2] == "name") and is_call(a[0][3], "to_string")]
                for a in test:
                    okargs = contains(a[0][2], is_item) and vname in show(a[0][3])
                    R.check(okargs, "C05-R1", key + "|%s-probe" % vname, "compares this archetype's name with the parameter's archetype (whole string)", "comparison is %s" % show_atom(a)[:160], where_of(f), fn=f.key)
            # truth table: push iff !enabled or test
            enabled = en[0][1] if en else None
            tv = test[0][1] if test else None
            expect_push = (enabled is False) or (enabled is True and tv is True)
            wellformed = (enabled is False and not test) or (enabled is True and len(test) == 1)
            if enabled is False:
                R.check(len(pushes) == 1 and not test, "C16-R4", key + "|disabled-%s-binds-everywhere" % vname, "a cfg-disabled %s parameter binds to every archetype without consulting it" % vname,
                        "a cfg-disabled %s parameter is still matched against the archetype (pushes=%d, tests=%d)" % (vname, len(pushes), len(test)), where_of(f), fn=f.key)
            R.check(wellformed and (len(pushes) == 1) == expect_push and ends_inner, "C05-R1", key + "|%s(enabled=%s,match=%s)" % (vname, enabled, tv),
                    "%s binds iff !cfg_enabled or %s" % (vname, "archetype has the component" if vname == "Component" else "archetype is the named one"),
                    "%s arm under %s: pushes=%d; expected push iff (!is_cfg_enabled || match)" % (vname, describe(ats[1:]), len(pushes)), where_of(f), fn=f.key)
        elif vname == "OneOf":
            seen[vname] = seen.get(vname, 0) + 1
            lens = [a for a in ats if a[0][0] == "cmp" and contains(a[0][2], lambda x: is_call(x, "Vec::len")) or (a[0][0] == "cmp" and contains(a[0][3], lambda x: is_call(x, "Vec::len")))]
            boo = [(v, vals2) for (v, vals2) in sw if v is not None and contains(v, lambda x: is_call(x, "bind_one_of"))]
            if p.end == "return":
                ret = N(p.ret)
                if contains(ret, lambda x: x == ("str", "cfg attributes not currently supported on OneOf")):
                    R.ok("C16-R5", key + "|OneOf-cfg-rejected", "cfg on OneOf is rejected with the documented error", fn=f.key)
                continue
            if pushes:
                v = N(pushes[0][1][3][1])
                d = dict(v[4]) if v[0] == "agg" else {}
                pt = d.get("param_type")
                okp = pt is not None and contains(pt, lambda x: is_call(x, "bind_one_of")) and contains(pt, lambda x: x[0] == "vdown" and x[2] == "Some")
                okarg = any(is_item(x[2][0]) for x in subterms(pt) if is_call(x, "bind_one_of")) if pt else False
                R.check(okp and okarg, "C05-R1", key + "|OneOf-bound", "OneOf binds the payload of bind_one_of(this archetype, args) == Ok(Some(_))", "OneOf pushes param_type = %s" % show(pt)[:160], where_of(f), fn=f.key)
            else:
                okn = any(contains(v, lambda x: is_call(x, "bind_one_of")) for (v, _) in boo)
                R.check(okn and ends_inner, "C05-R1", key + "|OneOf-unbound", "OneOf with no member present does not bind", "OneOf arm without push under %s" % describe(ats[1:]), where_of(f), fn=f.key)
    for vn in ("Component",) + NAMED + ALWAYS + ("OneOf",):
        R.check(seen.get(vn, 0) >= 1, "C05-R1", key + "|arm(%s)" % vn, "arm %s analysed (%d paths)" % (vn, seen.get(vn, 0)), "no path for parameter kind %s found (shape changed; fail closed)" % vn, where_of(f), fn=f.key)
    ret_ok = [p for p in ps if p.end == "return" and N(p.ret)[0] == "agg" and N(p.ret)[3] == "Ok"]
    R.check(len(ret_ok) == 1 and N(ret_ok[0].ret)[4][0][1][0] == "loopvar", "C05-R1", key + "|returns-result", "returns the accumulated map", "returns %s" % [show(N(p.ret))[:60] for p in ret_ok], where_of(f), fn=f.key)


# ----------------------------------------------------------------------------------
# C18-R6: parser guard on mutable entity parameters
# ----------------------------------------------------------------------------------
def rule_param_parser(ctx, R):
    f = mfn(ctx, R, "<parse::query::ParseQueryParam as syn::parse::Parse>::parse")
    if f is None:
        return
    ps = mp(ctx, f)
    key = "ParseQueryParam::parse"
    variants = enum_variants(ctx, "parse::query::ParseQueryParamType")
    if ps is None or variants is None:
        R.fail("SHAPE", key, "path enumeration failed", where_of(f), fn=f.key)
        return
    entity_kinds = {i for i, v in enumerate(variants) if v.startswith("Entity")}
    err_kinds, ok_mut_kinds = set(), set()
    for p in ps:
        if p.end != "return":
            continue
        ret = N(p.ret)
        sw = [(switch_val(c)) for c in p.conds if c[2] == "branch"]
        kinds = [vals for (v, vals) in sw if v is not None and v[0] == "vdown" or (v is not None and "ParseQueryParamType" in show(v))]
        ats = batoms(p)
        muts = [a for a in ats if a[0][0] == "bool" and is_call(a[0][1], "Option::is_some")]
        if contains(ret, lambda x: x == ("str", "mut entity access is forbidden")):
            ks = [vals for (v, vals) in sw if v is not None and vals and vals[0] != "not" and len(vals) >= 1 and all(isinstance(x, int) for x in vals)]
            for vals in ks[-1:]:
                err_kinds |= set(vals)
            R.check(bool(muts) and muts[-1][1] is True, "C18-R6", key + "|err-requires-mut", "the error is raised only for `&mut`", "error path under %s" % describe(ats)[-200:], where_of(f), fn=f.key)
        elif ret[0] == "agg" and ret[3] == "Ok" and muts and muts[-1][1] is True:
            ks = [vals for (v, vals) in sw if v is not None and vals and all(isinstance(x, int) for x in vals if x != "not")]
            if ks:
                last = ks[-1]
                if last[0] == "not":
                    ok_mut_kinds |= set(range(len(variants))) - set(last[1:])
                else:
                    ok_mut_kinds |= set(last)
    R.check(err_kinds == entity_kinds, "C18-R6", key + "|all-entity-kinds-guarded", "`&mut` is rejected for exactly the entity kinds %s" % sorted(variants[i] for i in entity_kinds),
            "`&mut` is rejected for kinds %s; the entity kinds are %s (a kind missing here lets the closure receive &mut to a handle stored in the archetype)" % (sorted(variants[i] for i in err_kinds if i < len(variants)), sorted(variants[i] for i in entity_kinds)), where_of(f), fn=f.key)
    R.check(not (ok_mut_kinds & entity_kinds), "C18-R6", key + "|no-mut-entity-accepted", "no accepting path has is_mut with an entity kind", "accepting `&mut` paths exist for %s" % sorted(variants[i] for i in ok_mut_kinds & entity_kinds), where_of(f), fn=f.key)


# ----------------------------------------------------------------------------------
# C05-R4: generators keep exactly the bound archetypes, error on empty match
# ----------------------------------------------------------------------------------
def rule_generators(ctx, R):
    for g in ("generate_query_find", "generate_query_iter", "generate_query_iter_destroy"):
        f = mfn(ctx, R, "generate::query::" + g)
        if f is None:
            continue
        # structural (CFG) judgement: these functions are long quote! expansions
        from .cfg import Cfg
        c = Cfg(f, "skip")
        blocks = f.blocks
        push_blocks = []
        get_blocks = []
        err_blocks = []
        empty_blocks = []
        for i in sorted(c.reach):
            t = blocks[i]["t"]
            if t["k"] != "call" or t["f"].get("indirect"):
                continue
            pth = t["f"]["path"]
            full = t["f"].get("full", "")
            if pth.endswith("Vec::<T, A>::push") and "TokenStream" in full and i in reach_loop(c):
                push_blocks.append(i)
            if strip_generics(pth).endswith("HashMap::get"):
                get_blocks.append(i)
            if pth.endswith("Error::new_spanned"):
                err_blocks.append(i)
            if pth.endswith("is_empty") and "TokenStream" in full:
                empty_blocks.append(i)
        dom = c.dominators()
        key = g
        okget = len(get_blocks) == 1
        R.check(okget, "C05-R4", key + "|lookup", "one bound_params.get(&archetype.name) per archetype", "found %d HashMap::get calls" % len(get_blocks), where_of(f), fn=f.key)
        # queries.push must be dominated by the Some edge of that get
        qp = [b for b in push_blocks if okget and get_blocks[0] in dom.get(b, ())]
        okp = okget and bool(qp)
        if okp:
            gb = get_blocks[0]
            nxt = blocks[gb]["t"]["t"]
            # the switch on the get result
            sw = None
            x = nxt
            for _ in range(4):
                t = blocks[x]["t"]
                if t["k"] == "switch":
                    sw = x
                    break
                if t["k"] == "goto":
                    x = t["t"]
                else:
                    break
            okp = sw is not None
            if okp:
                t = blocks[sw]["t"]
                some_tgt = [bb for v, bb in t["ts"] if v == 1]
                some_tgt = some_tgt[0] if some_tgt else t["o"]
                okp = all(some_tgt in dom.get(b, ()) for b in qp)
        R.check(okp, "C05-R4", key + "|push-iff-bound", "an arm/loop is emitted for an archetype iff bound_params.get(&archetype.name) is Some", "the per-archetype emission is not control dependent on the Some edge of bound_params.get", where_of(f), fn=f.key)
        R.check(len(err_blocks) >= 1 and len(empty_blocks) >= 1, "C05-R4", key + "|empty-is-error", "queries.is_empty() => compile error", "no `query matched no archetypes` error path found", where_of(f), fn=f.key)


def reach_loop(c):
    out = set()
    for h in c.loop_headers():
        out |= c.loop_body(h)
    return out
