"""E1 runner: extracts MIR facts of gecs, gecs_macros and the specimen crate for one
configuration with the mirfacts rustc driver, cached by tree hash."""
import fcntl
import os
import shutil
import subprocess
import sys
import time

sys.path.insert(0, os.path.dirname(os.path.abspath(__file__)))
from rules.core import tree_hash

VERIF = os.path.dirname(os.path.dirname(os.path.abspath(__file__)))
DRIVER = os.path.join(VERIF, "engine/mirfacts/target/release/mirfacts")
BUILD = os.path.join(VERIF, ".build")
CACHE = os.path.join(VERIF, ".cache")

FEATURES = ("events", "wrapping_version", "c32")


class Config:
    def __init__(self, features=(), debug=True):
        self.features = tuple(sorted(features))
        self.debug = debug

    @property
    def name(self):
        f = "".join({"events": "e", "wrapping_version": "w", "c32": "c"}[x] for x in self.features)
        return ("d" if self.debug else "r") + "-" + (f or "0")

    def describe(self):
        return "features=[%s] debug_assertions=%s" % (",".join(self.features), "on" if self.debug else "off")


def all_configs():
    out = []
    for mask in range(8):
        fs = [FEATURES[i] for i in range(3) if mask & (1 << i)]
        for dbg in (True, False):
            out.append(Config(fs, dbg))
    return out


QUICK = [Config((), True), Config(("events", "c32"), False), Config(("wrapping_version",), False)]


def configs_for(tier):
    cs = QUICK if tier == "quick" else all_configs()
    only = os.environ.get("VERIF_ONLY_CONFIGS")
    if only:
        cs = [c for c in cs if c.name in only.split(",")]
    return cs


def sysroot():
    return subprocess.check_output(["rustc", "+nightly", "--print", "sysroot"], text=True).strip()


def repo_key(repo):
    return tree_hash([os.path.join(repo, "src"), os.path.join(repo, "macros/src"), os.path.join(repo, "macros/Cargo.toml"),
                      os.path.join(repo, "Cargo.toml"), os.path.join(repo, "Cargo.lock")])


def engine_key():
    return tree_hash([os.path.join(VERIF, "engine/mirfacts/src"), os.path.join(VERIF, "specimen/src"), os.path.join(VERIF, "specimen/Cargo.toml")])


class BuildError(Exception):
    pass


def ensure_driver():
    if not os.path.exists(DRIVER):
        r = subprocess.run(["cargo", "+nightly", "build", "--release", "--offline"], cwd=os.path.join(VERIF, "engine/mirfacts"),
                           capture_output=True, text=True)
        if r.returncode != 0:
            raise BuildError("mirfacts driver failed to build:\n" + r.stderr[-3000:])


def specimen_dir(repo, tag=""):
    """The specimen path-depends on /repo. For a scratch repo, use a rewritten copy."""
    src = os.path.join(VERIF, "specimen")
    if os.path.abspath(repo) == "/repo":
        lock = os.path.join(src, "Cargo.lock")
        try:
            shutil.copyfile(os.path.join(repo, "Cargo.lock"), lock + ".in")
        except OSError:
            pass
        return src
    dst = os.path.join(os.path.dirname(os.path.abspath(repo)), "specimen-" + os.path.basename(os.path.abspath(repo)) + ("-" + tag if tag else ""))
    if os.path.exists(dst):
        shutil.rmtree(dst)
    shutil.copytree(src, dst, ignore=shutil.ignore_patterns("target", "Cargo.lock*"))
    p = os.path.join(dst, "Cargo.toml")
    s = open(p).read().replace('path = "/repo"', 'path = "%s"' % os.path.abspath(repo))
    open(p, "w").write(s)
    return dst


def ensure_facts(cfg, repo="/repo", verbose=False):
    """Returns the directory holding gecs.json, gecs_macros.json, specimen.json for cfg."""
    ensure_driver()
    key = "%s-%s-%s" % (repo_key(repo), engine_key(), cfg.name)
    out = os.path.join(CACHE, "facts", key)
    done = os.path.join(out, "DONE")
    if os.path.exists(done):
        return out
    os.makedirs(os.path.join(CACHE, "facts"), exist_ok=True)
    os.makedirs(BUILD, exist_ok=True)
    tgt = os.path.join(BUILD, "tgt-" + cfg.name)
    lockf = open(os.path.join(BUILD, "lock-" + cfg.name), "w")
    fcntl.flock(lockf, fcntl.LOCK_EX)
    try:
        if os.path.exists(done):
            return out
        if os.path.exists(out):
            shutil.rmtree(out)
        os.makedirs(out)
        os.makedirs(tgt, exist_ok=True)
        # cargo's freshness cache would skip the driver: forget the analysed crates
        fp = os.path.join(tgt, "debug", ".fingerprint")
        if os.path.isdir(fp):
            for d in os.listdir(fp):
                if d.startswith(("gecs-", "gecs_macros-", "specimen-")):
                    shutil.rmtree(os.path.join(fp, d), ignore_errors=True)
        # ... and their old artifacts (scratch trees would otherwise pile up here)
        deps = os.path.join(tgt, "debug", "deps")
        if os.path.isdir(deps):
            for d in os.listdir(deps):
                if d.startswith(("gecs-", "gecs_macros-", "specimen-", "libgecs-", "libgecs_macros-", "libspecimen-")):
                    try:
                        os.remove(os.path.join(deps, d))
                    except OSError:
                        pass
        shutil.rmtree(os.path.join(tgt, "debug", "incremental"), ignore_errors=True)
        spec = specimen_dir(repo, cfg.name)
        lock_src = os.path.join(repo, "Cargo.lock")
        if os.path.exists(lock_src):
            shutil.copyfile(lock_src, os.path.join(spec, "Cargo.lock"))
        env = dict(os.environ)
        env.update({
            "LD_LIBRARY_PATH": sysroot() + "/lib",
            "RUSTFLAGS": "-Zmir-opt-level=0 -Zalways-encode-mir -Awarnings",
            "RUSTC_WRAPPER": DRIVER,
            "CARGO_TARGET_DIR": tgt,
            "CARGO_NET_OFFLINE": "true",
            "CARGO_INCREMENTAL": "0",
            "VERIF_FACTS_DIR": out,
            "VERIF_FACTS_CRATES": "gecs,gecs_macros,specimen",
            "VERIF_MONO_CRATES": "specimen",
            "VERIF_WALK_CRATES": "gecs",
        })
        cmd = ["cargo", "+nightly", "check", "--offline", "--lib"]
        if cfg.features:
            cmd += ["--features", ",".join(cfg.features)]
        if not cfg.debug:
            for pkg in ("gecs", "gecs_macros", "specimen"):
                cmd += ["--config", "profile.dev.package.%s.debug-assertions=false" % pkg,
                        "--config", "profile.dev.package.%s.overflow-checks=false" % pkg]
        t = time.time()
        r = subprocess.run(cmd, cwd=spec, env=env, capture_output=True, text=True)
        if verbose:
            sys.stderr.write("[extract %s] %.1fs rc=%d\n" % (cfg.name, time.time() - t, r.returncode))
        if r.returncode != 0:
            have = all(os.path.exists(os.path.join(out, n + ".json")) for n in ("gecs", "gecs_macros"))
            if have and not os.path.exists(os.path.join(out, "specimen.json")):
                # gecs and its macro crate build, the specimen client crate does not: keep the facts that exist
                # and let the checks attribute the failure (a valid client program no longer compiles)
                with open(os.path.join(out, "specimen.error"), "w") as f:
                    f.write(r.stderr[-6000:])
                open(done, "w").write(cfg.describe() + " (specimen failed to build)\n")
                if os.path.abspath(repo) != "/repo":
                    shutil.rmtree(spec, ignore_errors=True)
                return out
            shutil.rmtree(out, ignore_errors=True)
            raise BuildError("cargo check under the mirfacts driver failed for %s:\n%s" % (cfg.describe(), r.stderr[-4000:]))
        for name in ("gecs", "gecs_macros", "specimen"):
            if not os.path.exists(os.path.join(out, name + ".json")):
                shutil.rmtree(out, ignore_errors=True)
                raise BuildError("fact file %s.json was not written by this run (driver skipped?)" % name)
        open(done, "w").write(cfg.describe() + "\n")
        if os.path.abspath(repo) != "/repo":
            shutil.rmtree(spec, ignore_errors=True)
        return out
    finally:
        fcntl.flock(lockf, fcntl.LOCK_UN)
        lockf.close()


def prune_cache(keep_prefixes):
    root = os.path.join(CACHE, "facts")
    if not os.path.isdir(root):
        return
    for d in os.listdir(root):
        if not any(d.startswith(k) for k in keep_prefixes):
            shutil.rmtree(os.path.join(root, d), ignore_errors=True)


if __name__ == "__main__":
    tier = sys.argv[1] if len(sys.argv) > 1 else "quick"
    for c in configs_for(tier):
        t = time.time()
        d = ensure_facts(c, verbose=True)
        print(c.name, d, round(time.time() - t, 1))
