// mirfacts: a rustc_private driver that behaves like rustc and, for selected crates,
// additionally serialises MIR facts (resolved callees, places, spans with macro
// backtraces, ADT/impl/const facts, and a monomorphic walk for specimen crates) as JSON.
//
// Used as RUSTC_WRAPPER: argv = [mirfacts, <rustc path>, rustc args...].
// Environment:
//   VERIF_FACTS_DIR     directory to write <crate>.json into (required to dump anything)
//   VERIF_FACTS_CRATES  comma separated crate names to dump generic facts for
//   VERIF_MONO_CRATES   comma separated crate names for which the monomorphic walk is done
//   VERIF_WALK_CRATES   comma separated crate names whose generic bodies are descended into
#![feature(rustc_private)]

extern crate rustc_abi;
extern crate rustc_driver;
extern crate rustc_hir;
extern crate rustc_interface;
extern crate rustc_middle;
extern crate rustc_session;
extern crate rustc_span;

use std::collections::{BTreeMap, HashMap, HashSet, VecDeque};
use std::fmt::Write as _;

use rustc_driver::Compilation;
use rustc_hir::def::DefKind;
use rustc_hir::def_id::{DefId, LOCAL_CRATE};
use rustc_middle::mir::{self, *};
use rustc_middle::ty::{self, EarlyBinder, Instance, InstanceKind, Ty, TyCtxt, TypingEnv};
use rustc_span::{ExpnKind, FileName, Span};

// ------------------------------------------------------------------------------------
// tiny JSON value
// ------------------------------------------------------------------------------------
#[derive(Clone, Debug)]
enum J {
    Null,
    B(bool),
    I(i128),
    S(String),
    A(Vec<J>),
    O(Vec<(&'static str, J)>),
    M(BTreeMap<String, J>),
}

fn esc(s: &str, out: &mut String) {
    out.push('"');
    for c in s.chars() {
        match c {
            '"' => out.push_str("\\\""),
            '\\' => out.push_str("\\\\"),
            '\n' => out.push_str("\\n"),
            '\r' => out.push_str("\\r"),
            '\t' => out.push_str("\\t"),
            c if (c as u32) < 0x20 => {
                let _ = write!(out, "\\u{:04x}", c as u32);
            }
            c => out.push(c),
        }
    }
    out.push('"');
}

impl J {
    fn s<T: Into<String>>(t: T) -> J {
        J::S(t.into())
    }
    fn write(&self, out: &mut String) {
        match self {
            J::Null => out.push_str("null"),
            J::B(b) => out.push_str(if *b { "true" } else { "false" }),
            J::I(i) => {
                let _ = write!(out, "{}", i);
            }
            J::S(s) => esc(s, out),
            J::A(v) => {
                out.push('[');
                for (i, x) in v.iter().enumerate() {
                    if i > 0 {
                        out.push(',');
                    }
                    x.write(out);
                }
                out.push(']');
            }
            J::O(v) => {
                out.push('{');
                for (i, (k, x)) in v.iter().enumerate() {
                    if i > 0 {
                        out.push(',');
                    }
                    esc(k, out);
                    out.push(':');
                    x.write(out);
                }
                out.push('}');
            }
            J::M(m) => {
                out.push('{');
                for (i, (k, x)) in m.iter().enumerate() {
                    if i > 0 {
                        out.push(',');
                    }
                    esc(k, out);
                    out.push(':');
                    x.write(out);
                }
                out.push('}');
            }
        }
    }
}

// ------------------------------------------------------------------------------------
// serialiser context
// ------------------------------------------------------------------------------------
struct Cx<'tcx> {
    tcx: TyCtxt<'tcx>,
    walk_crates: HashSet<String>,
    closures: std::cell::RefCell<Vec<Instance<'tcx>>>,
}

#[derive(Clone, Copy)]
enum Mode<'tcx> {
    Generic(TypingEnv<'tcx>),
    Mono,
}

impl<'tcx> Cx<'tcx> {
    fn ty(&self, t: Ty<'tcx>) -> J {
        J::S(format!("{}", t))
    }

    fn krate(&self, d: DefId) -> String {
        self.tcx.crate_name(d.krate).to_string()
    }

    fn path(&self, d: DefId) -> String {
        self.tcx.def_path_str(d)
    }

    fn span(&self, sp: Span) -> J {
        let sm = self.tcx.sess.source_map();
        let mut macros: Vec<J> = Vec::new();
        for ed in sp.macro_backtrace() {
            match ed.kind {
                ExpnKind::Macro(_, name) => macros.push(J::s(name.to_string())),
                ExpnKind::Desugaring(k) => macros.push(J::s(format!("desugar:{:?}", k))),
                ExpnKind::AstPass(k) => macros.push(J::s(format!("astpass:{:?}", k))),
                ExpnKind::Root => {}
            }
        }
        // innermost position that lies in a "project" file (not std / registry sources)
        let mut cur = sp;
        let mut file = String::new();
        let mut line = 0usize;
        let mut col = 0usize;
        for _ in 0..64 {
            if cur.is_dummy() {
                break;
            }
            let loc = sm.lookup_char_pos(cur.lo());
            let fname = match &loc.file.name {
                FileName::Real(r) => match r.local_path() {
                    Some(p) => p.to_string_lossy().to_string(),
                    None => format!("{:?}", r),
                },
                other => format!("{:?}", other),
            };
            file = fname.clone();
            line = loc.line;
            col = loc.col.0;
            let foreign = fname.contains("/rustlib/")
                || fname.starts_with("/rustc/")
                || fname.contains("/.cargo/registry/")
                || fname.starts_with('<');
            if !foreign {
                break;
            }
            let ctxt = cur.ctxt();
            if ctxt.is_root() {
                break;
            }
            cur = ctxt.outer_expn_data().call_site;
        }
        J::O(vec![
            ("f", J::S(file)),
            ("l", J::I(line as i128)),
            ("c", J::I(col as i128)),
            ("m", J::A(macros)),
        ])
    }

    fn place(&self, body: &Body<'tcx>, p: &Place<'tcx>) -> J {
        let mut proj = Vec::new();
        let mut cur_ty = mir::PlaceTy::from_ty(body.local_decls[p.local].ty);
        for elem in p.projection.iter() {
            let j = match elem {
                ProjectionElem::Deref => J::s("*"),
                ProjectionElem::Field(f, fty) => {
                    let mut name = format!("{}", f.index());
                    if let ty::Adt(adt, _) = cur_ty.ty.kind() {
                        let vidx = cur_ty.variant_index.unwrap_or(rustc_abi::FIRST_VARIANT);
                        if adt.is_struct() || adt.is_enum() || adt.is_union() {
                            if let Some(v) = adt.variants().get(vidx) {
                                if let Some(fd) = v.fields.get(f) {
                                    name = fd.name.to_string();
                                }
                            }
                        }
                    }
                    J::O(vec![
                        ("f", J::I(f.index() as i128)),
                        ("n", J::S(name)),
                        ("ty", self.ty(fty)),
                    ])
                }
                ProjectionElem::Index(l) => J::O(vec![("i", J::I(l.index() as i128))]),
                ProjectionElem::ConstantIndex { offset, min_length, from_end } => J::O(vec![
                    ("ci", J::I(offset as i128)),
                    ("min", J::I(min_length as i128)),
                    ("end", J::B(from_end)),
                ]),
                ProjectionElem::Subslice { from, to, from_end } => J::O(vec![
                    ("sub", J::I(from as i128)),
                    ("to", J::I(to as i128)),
                    ("end", J::B(from_end)),
                ]),
                ProjectionElem::Downcast(name, v) => J::O(vec![
                    ("dc", J::S(name.map(|s| s.to_string()).unwrap_or_default())),
                    ("vi", J::I(v.index() as i128)),
                ]),
                ProjectionElem::OpaqueCast(t) => J::O(vec![("oc", self.ty(t))]),
                ProjectionElem::UnwrapUnsafeBinder(t) => J::O(vec![("ub", self.ty(t))]),
            };
            proj.push(j);
            cur_ty = cur_ty.projection_ty(self.tcx, elem);
        }
        J::O(vec![("l", J::I(p.local.index() as i128)), ("p", J::A(proj))])
    }

    fn generic_args(&self, args: ty::GenericArgsRef<'tcx>) -> J {
        J::A(args.iter().map(|a| J::S(format!("{}", a))).collect())
    }

    fn const_(&self, c: &ConstOperand<'tcx>, mode: Mode<'tcx>) -> J {
        let tcx = self.tcx;
        let ty = c.const_.ty();
        let mut o: Vec<(&'static str, J)> = vec![("ty", self.ty(ty))];
        if let ty::FnDef(did, args) = ty.kind() {
            o.push(("fn", J::S(self.path(*did))));
            o.push(("args", self.generic_args(args)));
            return J::O(o);
        }
        let env = match mode {
            Mode::Generic(e) => e,
            Mode::Mono => TypingEnv::fully_monomorphized(),
        };
        if ty.is_integral() || ty.is_bool() || ty.is_char() {
            if let Some(si) = c.const_.try_eval_scalar_int(tcx, env) {
                let size = si.size();
                let bits = si.to_bits(size);
                let v: i128 = if ty.is_signed() {
                    let sh = 128 - size.bits() as u32;
                    if sh >= 128 { 0 } else { ((bits << sh) as i128) >> sh }
                } else {
                    bits as i128
                };
                o.push(("v", J::I(v)));
                // fall through to also record the unevaluated path if any
            }
        }
        match c.const_ {
            Const::Unevaluated(uv, _) => {
                o.push(("uneval", J::S(self.path(uv.def))));
                o.push(("uargs", self.generic_args(uv.args)));
            }
            Const::Val(val, vty) => {
                if let ty::Ref(_, inner, _) = vty.kind() {
                    if inner.is_str() {
                        if let Some(bytes) = val.try_get_slice_bytes_for_diagnostics(tcx) {
                            o.push(("str", J::S(String::from_utf8_lossy(bytes).to_string())));
                        }
                    }
                }
            }
            Const::Ty(..) => {}
        }
        if o.len() == 1 {
            let mut d = format!("{:?}", c.const_);
            if d.len() > 200 {
                d.truncate(200);
            }
            o.push(("dbg", J::S(d)));
        }
        J::O(o)
    }

    fn operand(&self, body: &Body<'tcx>, op: &Operand<'tcx>, mode: Mode<'tcx>) -> J {
        match op {
            Operand::Copy(p) => J::O(vec![("c", self.place(body, p))]),
            Operand::Move(p) => J::O(vec![("m", self.place(body, p))]),
            Operand::Constant(c) => J::O(vec![("k", self.const_(c, mode))]),
            #[allow(unreachable_patterns)]
            other => J::O(vec![("rt", J::S(format!("{:?}", other)))]),
        }
    }

    fn rvalue(&self, body: &Body<'tcx>, rv: &Rvalue<'tcx>, mode: Mode<'tcx>) -> J {
        match rv {
            Rvalue::Use(op, ..) => J::O(vec![("k", J::s("use")), ("a", self.operand(body, op, mode))]),
            Rvalue::Repeat(op, n) => J::O(vec![
                ("k", J::s("repeat")),
                ("a", self.operand(body, op, mode)),
                ("n", J::S(format!("{:?}", n))),
            ]),
            Rvalue::Ref(_, bk, p) => J::O(vec![
                ("k", J::s("ref")),
                ("mut", J::B(matches!(bk, BorrowKind::Mut { .. }))),
                ("p", self.place(body, p)),
            ]),
            Rvalue::ThreadLocalRef(d) => J::O(vec![("k", J::s("tls")), ("d", J::S(self.path(*d)))]),
            Rvalue::RawPtr(kind, p) => J::O(vec![
                ("k", J::s("rawptr")),
                ("mut", J::B(matches!(kind, RawPtrKind::Mut))),
                ("p", self.place(body, p)),
            ]),
            Rvalue::Cast(kind, op, t) => J::O(vec![
                ("k", J::s("cast")),
                ("ck", J::S(format!("{:?}", kind))),
                ("a", self.operand(body, op, mode)),
                ("from", self.ty(op.ty(&body.local_decls, self.tcx))),
                ("ty", self.ty(*t)),
            ]),
            Rvalue::BinaryOp(op, ab) => J::O(vec![
                ("k", J::s("bin")),
                ("op", J::S(format!("{:?}", op))),
                ("a", self.operand(body, &ab.0, mode)),
                ("b", self.operand(body, &ab.1, mode)),
            ]),
            Rvalue::UnaryOp(op, a) => J::O(vec![
                ("k", J::s("un")),
                ("op", J::S(format!("{:?}", op))),
                ("a", self.operand(body, a, mode)),
            ]),
            Rvalue::Discriminant(p) => J::O(vec![("k", J::s("discr")), ("p", self.place(body, p))]),
            Rvalue::Aggregate(kind, ops) => {
                let mut o: Vec<(&'static str, J)> = vec![("k", J::s("agg"))];
                match &**kind {
                    AggregateKind::Array(t) => {
                        o.push(("ak", J::s("array")));
                        o.push(("ty", self.ty(*t)));
                    }
                    AggregateKind::Tuple => o.push(("ak", J::s("tuple"))),
                    AggregateKind::Adt(did, vidx, args, _, _) => {
                        o.push(("ak", J::s("adt")));
                        o.push(("adt", J::S(self.path(*did))));
                        o.push(("args", self.generic_args(args)));
                        let adt = self.tcx.adt_def(*did);
                        let v = adt.variant(*vidx);
                        o.push(("variant", J::S(v.name.to_string())));
                        o.push(("vi", J::I(vidx.index() as i128)));
                        o.push((
                            "fields",
                            J::A(v.fields.iter().map(|f| J::S(f.name.to_string())).collect()),
                        ));
                    }
                    AggregateKind::Closure(did, args) => {
                        o.push(("ak", J::s("closure")));
                        o.push(("def", J::S(self.path(*did))));
                        o.push(("args", self.generic_args(args)));
                        if let Mode::Mono = mode {
                            // closures handed to std combinators (Option::map, Ref::map ...) are never called from a
                            // walked body: enqueue them where they are built
                            let inst = Instance::new_raw(*did, args);
                            o.push(("closure_key", J::S(format!("{}", inst))));
                            self.closures.borrow_mut().push(inst);
                        }
                    }
                    AggregateKind::RawPtr(t, m) => {
                        o.push(("ak", J::s("rawptr")));
                        o.push(("ty", self.ty(*t)));
                        o.push(("mut", J::B(m.is_mut())));
                    }
                    other => {
                        o.push(("ak", J::S(format!("{:?}", other))));
                    }
                }
                o.push(("ops", J::A(ops.iter().map(|x| self.operand(body, x, mode)).collect())));
                J::O(o)
            }
            Rvalue::CopyForDeref(p) => J::O(vec![
                ("k", J::s("use")),
                ("a", J::O(vec![("c", self.place(body, p))])),
            ]),
            other => J::O(vec![("k", J::s("other")), ("dbg", J::S(format!("{:?}", other)))]),
        }
    }

    fn unwind(&self, u: &UnwindAction) -> J {
        match u {
            UnwindAction::Continue => J::s("continue"),
            UnwindAction::Unreachable => J::s("unreachable"),
            UnwindAction::Terminate(_) => J::s("terminate"),
            UnwindAction::Cleanup(bb) => J::I(bb.index() as i128),
        }
    }

    fn instance_json(&self, inst: Instance<'tcx>) -> J {
        let did = inst.def_id();
        let kind = match inst.def {
            InstanceKind::Item(_) => "item".to_string(),
            InstanceKind::Intrinsic(_) => "intrinsic".to_string(),
            InstanceKind::Virtual(..) => "virtual".to_string(),
            InstanceKind::DropGlue(_, t) => {
                if t.is_some() { "dropglue".to_string() } else { "dropglue_noop".to_string() }
            }
            InstanceKind::CloneShim(..) => "cloneshim".to_string(),
            InstanceKind::FnPtrShim(..) => "fnptrshim".to_string(),
            InstanceKind::ClosureOnceShim { .. } => "closureonceshim".to_string(),
            InstanceKind::ReifyShim(..) => "reifyshim".to_string(),
            _ => "othershim".to_string(),
        };
        J::O(vec![
            ("path", J::S(self.path(did))),
            ("args", self.generic_args(inst.args)),
            ("kind", J::S(kind)),
            ("krate", J::S(self.krate(did))),
            ("key", J::S(format!("{}", inst))),
            ("intrinsic", J::B(self.tcx.intrinsic(did).is_some())),
        ])
    }

    fn callee(
        &self,
        body: &Body<'tcx>,
        func: &Operand<'tcx>,
        mode: Mode<'tcx>,
        found: &mut Vec<Instance<'tcx>>,
    ) -> J {
        let tcx = self.tcx;
        let fty = func.ty(&body.local_decls, tcx);
        match fty.kind() {
            ty::FnDef(did, args) => {
                let mut o: Vec<(&'static str, J)> = vec![
                    ("path", J::S(self.path(*did))),
                    ("args", self.generic_args(args)),
                    ("krate", J::S(self.krate(*did))),
                    ("full", J::S(tcx.def_path_str_with_args(*did, args))),
                ];
                if let Some(tr) = tcx.trait_of_assoc(*did) {
                    o.push(("trait", J::S(self.path(tr))));
                    if args.len() > 0 {
                        if let Some(st) = args[0].as_type() {
                            o.push(("self_ty", self.ty(st)));
                        }
                    }
                } else if let Some(imp) = tcx.impl_of_assoc(*did) {
                    o.push(("impl_self", self.ty(tcx.type_of(imp).instantiate_identity().skip_norm_wip())));
                }
                if tcx.intrinsic(*did).is_some() {
                    o.push(("intrinsic", J::B(true)));
                }
                let env = match mode {
                    Mode::Generic(e) => e,
                    Mode::Mono => TypingEnv::fully_monomorphized(),
                };
                let resolved = std::panic::catch_unwind(std::panic::AssertUnwindSafe(|| {
                    Instance::try_resolve(tcx, env, *did, args)
                }));
                match resolved {
                    Ok(Ok(Some(inst))) => {
                        o.push(("resolved", self.instance_json(inst)));
                        found.push(inst);
                        // `<T as Into<U>>::into` is core's blanket impl calling `<U as From<T>>::from`:
                        // record (and walk into) that impl so conversions stay visible.
                        let p = self.path(inst.def_id());
                        if p == "<T as std::convert::Into<U>>::into" && inst.args.len() == 2 {
                            if let (Some(t), Some(u)) = (inst.args[0].as_type(), inst.args[1].as_type()) {
                                if let Some(from_trait) = tcx.lang_items().from_trait() {
                                    if let Some(from_fn) = tcx.associated_item_def_ids(from_trait).first() {
                                        let fargs = tcx.mk_args(&[u.into(), t.into()]);
                                        let r2 = std::panic::catch_unwind(std::panic::AssertUnwindSafe(|| {
                                            Instance::try_resolve(tcx, env, *from_fn, fargs)
                                        }));
                                        if let Ok(Ok(Some(fi))) = r2 {
                                            o.push(("from_impl", self.instance_json(fi)));
                                            found.push(fi);
                                        }
                                    }
                                }
                            }
                        }
                    }
                    Ok(Ok(None)) => o.push(("resolved", J::Null)),
                    _ => o.push(("resolved", J::s("error"))),
                }
                J::O(o)
            }
            _ => J::O(vec![
                ("indirect", J::B(true)),
                ("ty", self.ty(fty)),
                ("op", self.operand(body, func, mode)),
            ]),
        }
    }

    fn body(&self, body: &Body<'tcx>, mode: Mode<'tcx>, found: &mut Vec<Instance<'tcx>>) -> Vec<(&'static str, J)> {
        let mut names: HashMap<usize, String> = HashMap::new();
        for vdi in &body.var_debug_info {
            if let VarDebugInfoContents::Place(p) = &vdi.value {
                if p.projection.is_empty() {
                    names.entry(p.local.index()).or_insert_with(|| vdi.name.to_string());
                }
            }
        }
        let locals: Vec<J> = body
            .local_decls
            .iter_enumerated()
            .map(|(l, d)| {
                J::O(vec![
                    ("ty", self.ty(d.ty)),
                    ("n", names.get(&l.index()).map(|s| J::S(s.clone())).unwrap_or(J::Null)),
                ])
            })
            .collect();
        let mut blocks = Vec::new();
        for (_bb, data) in body.basic_blocks.iter_enumerated() {
            let mut stmts = Vec::new();
            for st in &data.statements {
                match &st.kind {
                    StatementKind::Assign(b) => {
                        let (p, rv) = &**b;
                        stmts.push(J::O(vec![
                            ("k", J::s("assign")),
                            ("p", self.place(body, p)),
                            ("rv", self.rvalue(body, rv, mode)),
                            ("s", self.span(st.source_info.span)),
                        ]));
                    }
                    StatementKind::SetDiscriminant { place, variant_index } => {
                        stmts.push(J::O(vec![
                            ("k", J::s("setdiscr")),
                            ("p", self.place(body, place)),
                            ("vi", J::I(variant_index.index() as i128)),
                            ("s", self.span(st.source_info.span)),
                        ]));
                    }
                    StatementKind::Intrinsic(i) => {
                        let (name, ops): (&str, Vec<&Operand<'tcx>>) = match &**i {
                            NonDivergingIntrinsic::Assume(op) => ("assume", vec![op]),
                            NonDivergingIntrinsic::CopyNonOverlapping(c) => {
                                ("copy_nonoverlapping", vec![&c.src, &c.dst, &c.count])
                            }
                        };
                        stmts.push(J::O(vec![
                            ("k", J::s("intrinsic")),
                            ("name", J::s(name)),
                            ("ops", J::A(ops.iter().map(|x| self.operand(body, x, mode)).collect())),
                            ("s", self.span(st.source_info.span)),
                        ]));
                    }
                    _ => {}
                }
            }
            let term = data.terminator();
            let sp = self.span(term.source_info.span);
            let t = match &term.kind {
                TerminatorKind::Goto { target } => {
                    J::O(vec![("k", J::s("goto")), ("t", J::I(target.index() as i128))])
                }
                TerminatorKind::SwitchInt { discr, targets } => {
                    let mut ts = Vec::new();
                    for (v, bb) in targets.iter() {
                        ts.push(J::A(vec![J::I(v as i128), J::I(bb.index() as i128)]));
                    }
                    J::O(vec![
                        ("k", J::s("switch")),
                        ("d", self.operand(body, discr, mode)),
                        ("dty", self.ty(discr.ty(&body.local_decls, self.tcx))),
                        ("ts", J::A(ts)),
                        ("o", J::I(targets.otherwise().index() as i128)),
                        ("s", sp),
                    ])
                }
                TerminatorKind::UnwindResume => J::O(vec![("k", J::s("resume"))]),
                TerminatorKind::UnwindTerminate(_) => J::O(vec![("k", J::s("terminate"))]),
                TerminatorKind::Return => J::O(vec![("k", J::s("return")), ("s", sp)]),
                TerminatorKind::Unreachable => J::O(vec![("k", J::s("unreachable")), ("s", sp)]),
                TerminatorKind::Drop { place, target, unwind, .. } => {
                    let pty = place.ty(&body.local_decls, self.tcx).ty;
                    let env = match mode {
                        Mode::Generic(e) => e,
                        Mode::Mono => TypingEnv::fully_monomorphized(),
                    };
                    J::O(vec![
                        ("k", J::s("drop")),
                        ("p", self.place(body, place)),
                        ("ty", self.ty(pty)),
                        ("needs_drop", J::B(pty.needs_drop(self.tcx, env))),
                        ("t", J::I(target.index() as i128)),
                        ("u", self.unwind(unwind)),
                        ("s", sp),
                    ])
                }
                TerminatorKind::Call { func, args, destination, target, unwind, .. } => J::O(vec![
                    ("k", J::s("call")),
                    ("f", self.callee(body, func, mode, found)),
                    (
                        "args",
                        J::A(args.iter().map(|a| self.operand(body, &a.node, mode)).collect()),
                    ),
                    ("d", self.place(body, destination)),
                    ("t", target.map(|t| J::I(t.index() as i128)).unwrap_or(J::Null)),
                    ("u", self.unwind(unwind)),
                    ("s", sp),
                ]),
                TerminatorKind::TailCall { func, args, .. } => J::O(vec![
                    ("k", J::s("tailcall")),
                    ("f", self.callee(body, func, mode, found)),
                    (
                        "args",
                        J::A(args.iter().map(|a| self.operand(body, &a.node, mode)).collect()),
                    ),
                    ("s", sp),
                ]),
                TerminatorKind::Assert { cond, expected, msg, target, unwind } => {
                    let mk = match &**msg {
                        AssertKind::BoundsCheck { .. } => "BoundsCheck".to_string(),
                        AssertKind::Overflow(op, ..) => format!("Overflow({:?})", op),
                        AssertKind::OverflowNeg(_) => "OverflowNeg".to_string(),
                        AssertKind::DivisionByZero(_) => "DivisionByZero".to_string(),
                        AssertKind::RemainderByZero(_) => "RemainderByZero".to_string(),
                        AssertKind::MisalignedPointerDereference { .. } => "MisalignedPointerDereference".to_string(),
                        AssertKind::NullPointerDereference => "NullPointerDereference".to_string(),
                        AssertKind::InvalidEnumConstruction(_) => "InvalidEnumConstruction".to_string(),
                        _ => "Other".to_string(),
                    };
                    J::O(vec![
                        ("k", J::s("assert")),
                        ("c", self.operand(body, cond, mode)),
                        ("e", J::B(*expected)),
                        ("msg", J::S(mk)),
                        ("t", J::I(target.index() as i128)),
                        ("u", self.unwind(unwind)),
                        ("s", sp),
                    ])
                }
                other => J::O(vec![("k", J::s("other")), ("dbg", J::S(format!("{:?}", other))), ("s", sp)]),
            };
            blocks.push(J::O(vec![
                ("cleanup", J::B(data.is_cleanup)),
                ("st", J::A(stmts)),
                ("t", t),
            ]));
        }
        vec![
            ("argc", J::I(body.arg_count as i128)),
            ("locals", J::A(locals)),
            ("blocks", J::A(blocks)),
            ("span", self.span(body.span)),
        ]
    }

    // regions of the output that do not occur in any input and are not 'static
    fn sig_facts(&self, did: DefId) -> Vec<(&'static str, J)> {
        use rustc_middle::ty::{TypeVisitable, TypeVisitor};
        struct RV<'tcx> {
            regs: Vec<ty::Region<'tcx>>,
        }
        impl<'tcx> TypeVisitor<TyCtxt<'tcx>> for RV<'tcx> {
            fn visit_region(&mut self, r: ty::Region<'tcx>) {
                self.regs.push(r);
            }
        }
        let tcx = self.tcx;
        let sig = tcx.fn_sig(did).instantiate_identity().skip_norm_wip();
        let sig = sig.skip_binder();
        let mut inp = RV { regs: vec![] };
        for t in sig.inputs() {
            t.visit_with(&mut inp);
        }
        let mut out = RV { regs: vec![] };
        sig.output().visit_with(&mut out);
        let mut unbounded = Vec::new();
        for r in out.regs {
            if r.is_static() {
                continue;
            }
            if !inp.regs.contains(&r) {
                unbounded.push(J::S(format!("{:?}", r)));
            }
        }
        // impl-level lifetime parameters (e.g. struct Foo<'a>) count as bounded when they occur
        // in the Self type; they show up as early-bound regions in inputs via `self`, so nothing
        // more to do here. Regions only constrained by where-clauses are reported as unbounded.
        vec![
            ("inputs", J::A(sig.inputs().iter().map(|t| self.ty(*t)).collect())),
            ("output", self.ty(sig.output())),
            ("unsafe", J::B(sig.safety().is_unsafe())),
            ("unbounded_out_regions", J::A(unbounded)),
        ]
    }

    fn fn_header(&self, did: DefId) -> Vec<(&'static str, J)> {
        let tcx = self.tcx;
        let kind = tcx.def_kind(did);
        let mut o: Vec<(&'static str, J)> = vec![
            ("path", J::S(self.path(did))),
            ("krate", J::S(self.krate(did))),
            ("kind", J::S(format!("{:?}", kind))),
        ];
        if matches!(kind, DefKind::Fn | DefKind::AssocFn) {
            o.push(("sig", J::O(self.sig_facts(did))));
            o.push(("vis", J::S(format!("{:?}", tcx.visibility(did)))));
            if let Some(imp) = tcx.impl_of_assoc(did) {
                o.push(("impl", J::S(self.path(imp))));
                o.push(("impl_self", self.ty(tcx.type_of(imp).instantiate_identity().skip_norm_wip())));
                if let Some(tr) = tcx.impl_opt_trait_ref(imp) {
                    let tr = tr.instantiate_identity().skip_norm_wip();
                    o.push(("impl_trait", J::S(self.path(tr.def_id))));
                    o.push(("impl_trait_args", self.generic_args(tr.args)));
                }
                if let Some(ti) = tcx.trait_item_of(did) {
                    o.push(("trait_item", J::S(self.path(ti))));
                }
            } else if let Some(tr) = tcx.trait_of_assoc(did) {
                o.push(("trait_default_of", J::S(self.path(tr))));
            }
            let g = tcx.generics_of(did);
            let mut gs = Vec::new();
            let mut cur = Some(g);
            while let Some(gg) = cur {
                for p in gg.own_params.iter().rev() {
                    gs.push(J::S(p.name.to_string()));
                }
                cur = gg.parent.map(|p| tcx.generics_of(p));
            }
            gs.reverse();
            o.push(("generics", J::A(gs)));
        }
        if let Some(parent) = tcx.opt_parent(did) {
            if matches!(kind, DefKind::Closure) {
                o.push(("parent", J::S(self.path(tcx.typeck_root_def_id(did)))));
            } else {
                o.push(("parent", J::S(self.path(parent))));
            }
        }
        o
    }
}

// ------------------------------------------------------------------------------------
// the callback
// ------------------------------------------------------------------------------------
struct Dump {
    features: Vec<String>,
    facts_dir: String,
    facts: bool,
    mono: bool,
    walk_crates: HashSet<String>,
}

fn list_env(name: &str) -> HashSet<String> {
    std::env::var(name)
        .unwrap_or_default()
        .split(',')
        .filter(|s| !s.is_empty())
        .map(|s| s.to_string())
        .collect()
}

impl rustc_driver::Callbacks for Dump {
    fn after_analysis<'tcx>(
        &mut self,
        _compiler: &rustc_interface::interface::Compiler,
        tcx: TyCtxt<'tcx>,
    ) -> Compilation {
        if tcx.dcx().has_errors().is_some() {
            return Compilation::Continue;
        }
        let crate_name = tcx.crate_name(LOCAL_CRATE).to_string();
        let cx = Cx { tcx, walk_crates: self.walk_crates.clone(), closures: std::cell::RefCell::new(Vec::new()) };
        let out = rustc_middle::ty::print::with_no_trimmed_paths!({
            let mut top: Vec<(&'static str, J)> = vec![("crate", J::S(crate_name.clone()))];
            top.push((
                "debug_assertions",
                J::B(tcx.sess.opts.debug_assertions),
            ));
            top.push(("overflow_checks", J::B(tcx.sess.overflow_checks())));
            top.push(("ub_checks", J::B(tcx.sess.ub_checks())));
            let mut cfgs: Vec<String> = self.features.clone();
            cfgs.sort();
            top.push(("features", J::A(cfgs.into_iter().map(J::S).collect())));
            if self.facts {
                top.push(("fns", dump_generic(&cx)));
                top.push(("adts", dump_adts(&cx)));
                top.push(("impls", dump_impls(&cx)));
                top.push(("consts", dump_consts(&cx)));
            }
            if self.mono {
                top.push(("mono", dump_mono(&cx)));
            }
            J::O(top)
        });
        let mut s = String::with_capacity(1 << 20);
        out.write(&mut s);
        let path = format!("{}/{}.json", self.facts_dir, crate_name);
        let tmp = format!("{}.tmp{}", path, std::process::id());
        std::fs::write(&tmp, s).expect("write facts");
        std::fs::rename(&tmp, &path).expect("rename facts");
        Compilation::Continue
    }
}

fn dump_generic<'tcx>(cx: &Cx<'tcx>) -> J {
    let tcx = cx.tcx;
    let mut fns = Vec::new();
    let mut keys: Vec<_> = tcx.mir_keys(()).iter().copied().collect();
    keys.sort_by_key(|k| tcx.def_path_str(k.to_def_id()));
    for ldid in keys {
        let did = ldid.to_def_id();
        let kind = tcx.def_kind(did);
        if !matches!(kind, DefKind::Fn | DefKind::AssocFn | DefKind::Closure) {
            continue;
        }
        if tcx.is_constructor(did) {
            continue;
        }
        let body = tcx.optimized_mir(did);
        let env = TypingEnv::post_analysis(tcx, did);
        let mut o = cx.fn_header(did);
        let mut found = Vec::new();
        o.extend(cx.body(body, Mode::Generic(env), &mut found));
        fns.push(J::O(o));
    }
    J::A(fns)
}

fn dump_mono<'tcx>(cx: &Cx<'tcx>) -> J {
    let tcx = cx.tcx;
    let mut queue: VecDeque<Instance<'tcx>> = VecDeque::new();
    let mut seen: HashSet<Instance<'tcx>> = HashSet::new();
    let mut roots = Vec::new();
    let mut keys: Vec<_> = tcx.mir_keys(()).iter().copied().collect();
    keys.sort_by_key(|k| tcx.def_path_str(k.to_def_id()));
    for ldid in keys {
        let did = ldid.to_def_id();
        let kind = tcx.def_kind(did);
        if !matches!(kind, DefKind::Fn | DefKind::AssocFn) {
            continue;
        }
        if tcx.generics_of(did).requires_monomorphization(tcx) {
            continue;
        }
        let inst = Instance::mono(tcx, did);
        roots.push(J::S(format!("{}", inst)));
        if seen.insert(inst) {
            queue.push_back(inst);
        }
    }
    let mut insts = Vec::new();
    let mut skipped: BTreeMap<String, J> = BTreeMap::new();
    while let Some(inst) = queue.pop_front() {
        let did = inst.def_id();
        let body = tcx.instance_mir(inst.def);
        let body: Body<'tcx> = inst.instantiate_mir_and_normalize_erasing_regions(
            tcx,
            TypingEnv::fully_monomorphized(),
            EarlyBinder::bind(body.clone()),
        );
        let mut o: Vec<(&'static str, J)> = vec![
            ("key", J::S(format!("{}", inst))),
            ("inst_args", cx.generic_args(inst.args)),
        ];
        o.extend(cx.fn_header(did));
        let mut found = Vec::new();
        o.extend(cx.body(&body, Mode::Mono, &mut found));
        found.extend(cx.closures.borrow_mut().drain(..));
        insts.push(J::O(o));
        for f in found {
            let fdid = f.def_id();
            let descend = matches!(f.def, InstanceKind::Item(_))
                && tcx.intrinsic(fdid).is_none()
                && (fdid.is_local() || cx.walk_crates.contains(&cx.krate(fdid)))
                && tcx.is_mir_available(fdid)
                && !tcx.is_constructor(fdid);
            if descend {
                if seen.insert(f) {
                    queue.push_back(f);
                }
            } else {
                skipped.entry(format!("{}", f)).or_insert_with(|| cx.instance_json(f));
            }
        }
    }
    J::O(vec![
        ("roots", J::A(roots)),
        ("instances", J::A(insts)),
        ("external", J::M(skipped)),
    ])
}

fn dump_adts<'tcx>(cx: &Cx<'tcx>) -> J {
    let tcx = cx.tcx;
    let mut m = BTreeMap::new();
    for ldid in tcx.hir_crate_items(()).definitions() {
        let did = ldid.to_def_id();
        if !matches!(tcx.def_kind(did), DefKind::Struct | DefKind::Enum | DefKind::Union) {
            continue;
        }
        let adt = tcx.adt_def(did);
        let mut variants = Vec::new();
        for v in adt.variants() {
            let fields: Vec<J> = v
                .fields
                .iter()
                .map(|f| {
                    J::O(vec![
                        ("n", J::S(f.name.to_string())),
                        ("ty", cx.ty(tcx.type_of(f.did).instantiate_identity().skip_norm_wip())),
                        ("vis", J::S(format!("{:?}", f.vis))),
                    ])
                })
                .collect();
            variants.push(J::O(vec![("n", J::S(v.name.to_string())), ("fields", J::A(fields))]));
        }
        let g = tcx.generics_of(did);
        let params: Vec<J> = g.own_params.iter().map(|p| J::S(p.name.to_string())).collect();
        m.insert(
            cx.path(did),
            J::O(vec![
                ("kind", J::S(format!("{:?}", tcx.def_kind(did)))),
                ("transparent", J::B(adt.repr().transparent())),
                ("repr_c", J::B(adt.repr().c())),
                ("params", J::A(params)),
                ("variants", J::A(variants)),
                ("vis", J::S(format!("{:?}", tcx.visibility(did)))),
                ("has_dtor", J::B(adt.destructor(tcx).is_some())),
                ("span", cx.span(tcx.def_span(did))),
            ]),
        );
    }
    J::M(m)
}

fn dump_impls<'tcx>(cx: &Cx<'tcx>) -> J {
    let tcx = cx.tcx;
    let mut v = Vec::new();
    for ldid in tcx.hir_crate_items(()).definitions() {
        let did = ldid.to_def_id();
        if !matches!(tcx.def_kind(did), DefKind::Impl { .. }) {
            continue;
        }
        let mut o: Vec<(&'static str, J)> = vec![
            ("path", J::S(cx.path(did))),
            ("self", cx.ty(tcx.type_of(did).instantiate_identity().skip_norm_wip())),
            ("span", cx.span(tcx.def_span(did))),
        ];
        if let Some(tr) = tcx.impl_opt_trait_ref(did) {
            let tr = tr.instantiate_identity().skip_norm_wip();
            o.push(("trait", J::S(cx.path(tr.def_id))));
            o.push(("trait_args", cx.generic_args(tr.args)));
            let h = tcx.impl_trait_header(did);
            o.push(("unsafe", J::B(h.safety.is_unsafe())));
            o.push(("negative", J::B(matches!(h.polarity, ty::ImplPolarity::Negative))));
        }
        let preds = tcx.predicates_of(did);
        let ps: Vec<J> = preds
            .predicates
            .iter()
            .map(|(p, _)| J::S(format!("{}", p)))
            .collect();
        o.push(("where", J::A(ps)));
        let items: Vec<J> = tcx
            .associated_item_def_ids(did)
            .iter()
            .map(|i| J::S(cx.path(*i)))
            .collect();
        o.push(("items", J::A(items)));
        v.push(J::O(o));
    }
    J::A(v)
}

fn dump_consts<'tcx>(cx: &Cx<'tcx>) -> J {
    let tcx = cx.tcx;
    let mut m = BTreeMap::new();
    for ldid in tcx.hir_crate_items(()).definitions() {
        let did = ldid.to_def_id();
        let kind = tcx.def_kind(did);
        if !matches!(kind, DefKind::Const { .. } | DefKind::AssocConst { .. }) {
            continue;
        }
        if tcx.generics_of(did).requires_monomorphization(tcx) {
            continue;
        }
        // trait-declared associated consts without a default have no body
        if matches!(kind, DefKind::AssocConst { .. }) {
            if tcx.trait_of_assoc(did).is_some() && !tcx.defaultness(did).has_value() {
                continue;
            }
        }
        let ty = tcx.type_of(did).instantiate_identity().skip_norm_wip();
        let mut o: Vec<(&'static str, J)> = vec![("ty", cx.ty(ty))];
        if let Some(imp) = tcx.impl_of_assoc(did) {
            o.push(("impl_self", cx.ty(tcx.type_of(imp).instantiate_identity().skip_norm_wip())));
            if let Some(tr) = tcx.impl_opt_trait_ref(imp) {
                let tr = tr.instantiate_identity().skip_norm_wip();
                o.push(("impl_trait", J::S(cx.path(tr.def_id))));
                o.push(("impl_trait_args", cx.generic_args(tr.args)));
            }
        }
        if let Ok(val) = tcx.const_eval_poly(did) {
            if let Some(si) = val.try_to_scalar_int() {
                let size = si.size();
                o.push(("v", J::I(si.to_bits(size) as i128)));
            }
        }
        m.insert(cx.path(did), J::O(o));
    }
    J::M(m)
}

fn main() {
    let mut args: Vec<String> = std::env::args().collect();
    // RUSTC_WRAPPER convention: argv[1] is the path of the real rustc; drop it.
    if args.len() > 1 && (args[1].ends_with("rustc") || args[1].contains("/rustc")) {
        args.remove(1);
    }
    let mut crate_name = String::new();
    let mut features: Vec<String> = Vec::new();
    let mut i = 0;
    while i < args.len() {
        if args[i] == "--crate-name" && i + 1 < args.len() {
            crate_name = args[i + 1].clone();
        }
        if args[i] == "--cfg" && i + 1 < args.len() {
            if let Some(rest) = args[i + 1].strip_prefix("feature=") {
                features.push(rest.trim_matches('"').to_string());
            }
        }
        i += 1;
    }
    let facts_dir = std::env::var("VERIF_FACTS_DIR").unwrap_or_default();
    let facts = !facts_dir.is_empty() && list_env("VERIF_FACTS_CRATES").contains(&crate_name);
    let mono = !facts_dir.is_empty() && list_env("VERIF_MONO_CRATES").contains(&crate_name);
    // `--print`/version probes by cargo have no crate name: behave as plain rustc.
    if facts || mono {
        let mut cb = Dump { features, facts_dir, facts, mono, walk_crates: list_env("VERIF_WALK_CRATES") };
        rustc_driver::run_compiler(&args, &mut cb);
    } else {
        struct Plain;
        impl rustc_driver::Callbacks for Plain {}
        rustc_driver::run_compiler(&args, &mut Plain);
    }
}
