import sys, time
sys.path.insert(0,'/verif/engine')
from rules import core
import importlib
def run(facts_dir, modname, fnnames):
    t=time.time()
    ctx=core.Ctx(facts_dir,'dbg')
    print('load',round(time.time()-t,1))
    mod=importlib.import_module('rules.'+modname)
    R=core.Report('X'); R.config='dbg'
    for fnname in fnnames:
        t=time.time()
        getattr(mod,fnname)(ctx,R)
        print(fnname,'time',round(time.time()-t,1))
    print('counts',R.counts)
    for v in R.violations[:40]:
        print('VIOL',v.rule,v.key,'::',v.detail[:400],'@',v.where)
    print('nviol',len(R.violations))
    for k,s in list(R.samples.items())[:50]: print('sample',k,s['instance'],'->',str(s['judged'])[:150])
if __name__=='__main__':
    run(sys.argv[1], sys.argv[2], sys.argv[3:])
