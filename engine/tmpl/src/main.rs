// tmpl: token-level source analyser (E3). Lexes Rust files with proc-macro2 (span locations)
// and reports, as JSON on stdout:
//   * every quote!/quote_spanned!/format_ident! invocation (template) with its flattened tokens,
//   * every #[cfg(..)] / #[cfg_attr(..)] attribute and cfg!(..) invocation with the gated token run,
//   * the token text of every fn body (for sibling-equality checks).
// usage: tmpl <file.rs>...
use proc_macro2::{Delimiter, TokenStream, TokenTree};
use std::fmt::Write;

fn esc(s: &str) -> String {
    let mut o = String::new();
    o.push('"');
    for c in s.chars() {
        match c {
            '"' => o.push_str("\\\""),
            '\\' => o.push_str("\\\\"),
            '\n' => o.push_str("\\n"),
            '\r' => o.push_str("\\r"),
            '\t' => o.push_str("\\t"),
            c if (c as u32) < 0x20 => {
                let _ = write!(o, "\\u{:04x}", c as u32);
            }
            c => o.push(c),
        }
    }
    o.push('"');
    o
}

fn delim(d: Delimiter) -> (&'static str, &'static str) {
    match d {
        Delimiter::Parenthesis => ("(", ")"),
        Delimiter::Brace => ("{", "}"),
        Delimiter::Bracket => ("[", "]"),
        Delimiter::None => ("", ""),
    }
}

fn flatten(ts: TokenStream, out: &mut Vec<(String, &'static str, usize)>) {
    for tt in ts {
        match tt {
            TokenTree::Group(g) => {
                let (o, c) = delim(g.delimiter());
                let line = g.span_open().start().line;
                if !o.is_empty() {
                    out.push((o.to_string(), "open", line));
                }
                flatten(g.stream(), out);
                if !c.is_empty() {
                    out.push((c.to_string(), "close", g.span_close().start().line));
                }
            }
            TokenTree::Ident(i) => out.push((i.to_string(), "ident", i.span().start().line)),
            TokenTree::Punct(p) => out.push((p.as_char().to_string(), "punct", p.span().start().line)),
            TokenTree::Literal(l) => out.push((l.to_string(), "lit", l.span().start().line)),
        }
    }
}

struct Out {
    templates: Vec<String>,
    cfgs: Vec<String>,
    fns: Vec<String>,
}

fn toks_json(v: &[(String, &'static str, usize)]) -> String {
    let mut s = String::from("[");
    for (i, (t, k, _)) in v.iter().enumerate() {
        if i > 0 {
            s.push(',');
        }
        let _ = write!(s, "[{},{}]", esc(t), esc(k));
    }
    s.push(']');
    s
}

fn text_of(v: &[(String, &'static str, usize)]) -> String {
    v.iter().map(|x| x.0.as_str()).collect::<Vec<_>>().join(" ")
}

fn walk(file: &str, ts: TokenStream, ctx: &str, out: &mut Out) {
    let v: Vec<TokenTree> = ts.into_iter().collect();
    let mut i = 0;
    let mut pending_fn: Option<String> = None;
    while i < v.len() {
        match &v[i] {
            TokenTree::Ident(id) => {
                let name = id.to_string();
                if name == "fn" {
                    if let Some(TokenTree::Ident(n)) = v.get(i + 1) {
                        pending_fn = Some(n.to_string());
                    }
                }
                // macro invocation: ident ! group
                if let (Some(TokenTree::Punct(p)), Some(TokenTree::Group(g))) = (v.get(i + 1), v.get(i + 2)) {
                    if p.as_char() == '!' {
                        if name == "quote" || name == "quote_spanned" || name == "format_ident" {
                            let mut flat = Vec::new();
                            flatten(g.stream(), &mut flat);
                            let line = id.span().start().line;
                            out.templates.push(format!(
                                "{{\"file\":{},\"line\":{},\"fn\":{},\"macro\":{},\"tokens\":{}}}",
                                esc(file), line, esc(ctx), esc(&name), toks_json(&flat)
                            ));
                            // attributes inside a template are emitted code, not cfgs of this crate
                            let c2 = format!("{}::<template>", ctx);
                            walk(file, g.stream(), &c2, out);
                            i += 3;
                            continue;
                        }
                        if name == "cfg" {
                            let mut flat = Vec::new();
                            flatten(g.stream(), &mut flat);
                            // the gated run: what follows in this token list up to the matching brace group
                            let mut after = Vec::new();
                            let mut j = i + 3;
                            while j < v.len() && after.len() < 40 {
                                let mut f2 = Vec::new();
                                flatten(std::iter::once(v[j].clone()).collect(), &mut f2);
                                let is_brace = matches!(&v[j], TokenTree::Group(g2) if g2.delimiter() == Delimiter::Brace);
                                after.extend(f2);
                                j += 1;
                                if is_brace {
                                    break;
                                }
                            }
                            out.cfgs.push(format!(
                                "{{\"file\":{},\"line\":{},\"fn\":{},\"kind\":\"cfg!\",\"pred\":{},\"gated\":{},\"end_line\":{}}}",
                                esc(file), id.span().start().line, esc(ctx), esc(&text_of(&flat)), esc(&text_of(&after)),
                                after.last().map(|x| x.2).unwrap_or(id.span().start().line)
                            ));
                        }
                    }
                }
                i += 1;
            }
            TokenTree::Punct(p) if p.as_char() == '#' => {
                // attribute: # [ cfg ( .. ) ]   (also #![...])
                let mut k = i + 1;
                if let Some(TokenTree::Punct(b)) = v.get(k) {
                    if b.as_char() == '!' {
                        k += 1;
                    }
                }
                if let Some(TokenTree::Group(g)) = v.get(k) {
                    if g.delimiter() == Delimiter::Bracket {
                        let inner: Vec<TokenTree> = g.stream().into_iter().collect();
                        if let Some(TokenTree::Ident(a)) = inner.first() {
                            let an = a.to_string();
                            if an == "cfg" || an == "cfg_attr" {
                                let mut flat = Vec::new();
                                if let Some(TokenTree::Group(pg)) = inner.get(1) {
                                    flatten(pg.stream(), &mut flat);
                                }
                                // gated run: following tokens (skipping further attributes) until `,` / `;` at this
                                // depth or the first brace group (inclusive)
                                let mut after = Vec::new();
                                let mut j = k + 1;
                                while j < v.len() {
                                    if let TokenTree::Punct(pp) = &v[j] {
                                        if pp.as_char() == ',' || pp.as_char() == ';' {
                                            break;
                                        }
                                    }
                                    let mut f2 = Vec::new();
                                    flatten(std::iter::once(v[j].clone()).collect(), &mut f2);
                                    let is_brace = matches!(&v[j], TokenTree::Group(g2) if g2.delimiter() == Delimiter::Brace);
                                    after.extend(f2);
                                    j += 1;
                                    if is_brace {
                                        break;
                                    }
                                }
                                let end_line = after.last().map(|x| x.2).unwrap_or(a.span().start().line);
                                let mut short = after.clone();
                                short.truncate(60);
                                out.cfgs.push(format!(
                                    "{{\"file\":{},\"line\":{},\"fn\":{},\"kind\":{},\"pred\":{},\"gated\":{},\"gated_len\":{},\"end_line\":{}}}",
                                    esc(file), a.span().start().line, esc(ctx), esc(&an), esc(&text_of(&flat)), esc(&text_of(&short)), after.len(), end_line
                                ));
                            }
                        }
                    }
                }
                i += 1;
            }
            TokenTree::Group(g) => {
                let mut c = ctx.to_string();
                if g.delimiter() == Delimiter::Brace {
                    if let Some(f) = pending_fn.take() {
                        c = if ctx.is_empty() { f } else { format!("{}::{}", ctx, f) };
                        let mut flat = Vec::new();
                        flatten(g.stream(), &mut flat);
                        out.fns.push(format!(
                            "{{\"file\":{},\"fn\":{},\"line\":{},\"body\":{}}}",
                            esc(file), esc(&c), g.span_open().start().line, esc(&text_of(&flat))
                        ));
                    }
                }
                walk(file, g.stream(), &c, out);
                i += 1;
            }
            _ => {
                if let TokenTree::Punct(p) = &v[i] {
                    if p.as_char() == ';' {
                        pending_fn = None;
                    }
                }
                i += 1;
            }
        }
    }
}

fn main() {
    let mut out = Out { templates: vec![], cfgs: vec![], fns: vec![] };
    let mut errors = Vec::new();
    for path in std::env::args().skip(1) {
        let src = match std::fs::read_to_string(&path) {
            Ok(s) => s,
            Err(e) => {
                errors.push(format!("{}: {}", path, e));
                continue;
            }
        };
        match src.parse::<TokenStream>() {
            Ok(ts) => walk(&path, ts, "", &mut out),
            Err(e) => errors.push(format!("{}: lex error {}", path, e)),
        }
    }
    println!(
        "{{\"templates\":[{}],\"cfgs\":[{}],\"fns\":[{}],\"errors\":[{}]}}",
        out.templates.join(","),
        out.cfgs.join(","),
        out.fns.join(","),
        errors.iter().map(|e| esc(e)).collect::<Vec<_>>().join(",")
    );
}
