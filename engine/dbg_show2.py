import sys
sys.path.insert(0,'/verif/engine')
from rules import facts, sym, norm
from rules.sym import Executor, show, show_loc
from rules.norm import N, atom, show_atom
def dump(fn, ex, maxp=12, maxdepth=0):
    names={i:(fn.local_name(i) or 'arg%d'%i) for i in range(1,fn.argc+1)}
    paths=ex.run(fn)
    print('==',fn.key,'paths',len(paths))
    for p in paths[:maxp]:
        print(' PATH end=',p.end if not isinstance(p.end,tuple) else (p.end[0], str(p.end[1])[-40:]))
        for c in p.conds:
            if c[2] in('branch','assume'): print('    if',show_atom(atom(c))[:200], '[%s]'%c[2])
        for e in p.effects:
            if e[0]=='call' and e[4]<=maxdepth: print('   '+'  '*e[4],'call',norm.cname(e[2]), [show(N(a),names)[:90] for a in e[3]], 'inl' if e[7] else '')
            elif e[0]=='store' and e[3]<=maxdepth+1: print('   '+'  '*e[3],'store',show_loc(norm.NL(e[1]),names)[:100],'<-',show(N(e[2]),names)[:160])
            elif e[0]=='drop': print('   '+'  '*e[3],'drop',show_loc(e[1],names),e[2],e[6])
            elif e[0]=='loop': print('    loop',e[1],e[2])
        if p.ret is not None: print('    RET',show(N(p.ret),names)[:300])
if __name__=='__main__':
    cr=facts.Crate(sys.argv[1])
    ex=Executor(cr if len(sys.argv)<4 or sys.argv[3]!='mono' else cr.mono)
    tbl = cr if len(sys.argv)<4 or sys.argv[3]!='mono' else cr.mono
    for f in tbl.find(sys.argv[2]):
        dump(f,ex)
