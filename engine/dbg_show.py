import sys, json
sys.path.insert(0,'/verif/engine')
from rules import facts, sym
from rules.sym import Executor, show, show_loc, show_cond
def dump(fn, ex, maxp=20):
    names={i:(fn.local_name(i) or 'arg%d'%i) for i in range(1,fn.argc+1)}
    paths=ex.run(fn)
    print('==',fn.key,'paths',len(paths))
    for p in paths[:maxp]:
        print(' PATH end=',p.end,'blocks',p.blocks[:40])
        for c in p.conds: print('    if',show_cond(c,names))
        for e in p.effects:
            if e[0]=='call': print('   '+'  '*e[4],'call',e[1],e[2].split('::')[-2:], [show(a,names) for a in e[3]], 'inl' if e[7] else '')
            elif e[0]=='store': print('   '+'  '*e[3],'store',show_loc(e[1],names),'<-',show(e[2],names))
            elif e[0]=='ret': print('   '+'  '*e[4],'ret',e[1],show(e[3],names))
            elif e[0]=='drop': print('   '+'  '*e[3],'drop',show_loc(e[1],names),e[2],e[6])
            else: print('    ',e[0],e[1])
        if p.ret is not None: print('    RET',show(p.ret,names))
if __name__=='__main__':
    cr=facts.Crate(sys.argv[1])
    ex=Executor(cr)
    import re
    for f in cr.find(sys.argv[2]):
        dump(f,ex)
