use gecs::prelude::*;

#[derive(Clone, Debug, PartialEq)]
pub struct CompA(pub u32);
#[derive(Clone, Debug, PartialEq)]
pub struct CompZ; // zero sized
#[derive(Clone, Debug, PartialEq)]
pub struct CompBox(pub Box<u32>); // heap owning, has drop glue
#[derive(Clone, Debug, PartialEq)]
#[repr(align(16))]
pub struct CompAl(pub [u8; 16]); // over-aligned
#[derive(Clone, Debug, PartialEq)]
pub struct CompD(pub String); // has drop glue

macro_rules! small { ($($n:ident),*) => { $( #[derive(Clone, Debug, PartialEq)] pub struct $n(pub u8); )* } }
small!(K0, K1, K2, K3, K4, K5, K6, K7, K8, K9, K10, K11, K12, K13, K14, K15);

ecs_world! {
    ecs_name!(SpecWorld);

    #[archetype_id(2)]
    ecs_archetype!(ArchOne, CompA);

    ecs_archetype!(ArchTwo, CompA, CompZ);

    #[archetype_id(7)]
    ecs_archetype!(ArchThree, CompA, #[component_id(5)] CompBox, CompAl);

    ecs_archetype!(ArchBig, K0, K1, K2, K3, K4, K5, K6, K7, K8, K9, K10, K11, K12, K13, K14, K15);

    ecs_archetype!(ArchDrop, CompD, CompBox);
}

// ------------------------------------------------------------------------------------
// world-level key API, four key kinds
// ------------------------------------------------------------------------------------
pub fn w_contains__entity(w: &SpecWorld, k: Entity<ArchThree>) -> bool { w.contains(k) }
pub fn w_contains__direct(w: &SpecWorld, k: EntityDirect<ArchThree>) -> bool { w.contains(k) }
pub fn w_contains__any(w: &SpecWorld, k: EntityAny) -> bool { w.contains(k) }
pub fn w_contains__directany(w: &SpecWorld, k: EntityDirectAny) -> bool { w.contains(k) }

pub fn w_to_direct__entity(w: &SpecWorld, k: Entity<ArchThree>) -> Option<EntityDirect<ArchThree>> { w.to_direct(k) }
pub fn w_to_direct__direct(w: &SpecWorld, k: EntityDirect<ArchThree>) -> Option<EntityDirect<ArchThree>> { w.to_direct(k) }
pub fn w_to_direct__any(w: &SpecWorld, k: EntityAny) -> Option<EntityDirectAny> { w.to_direct(k) }
pub fn w_to_direct__directany(w: &SpecWorld, k: EntityDirectAny) -> Option<EntityDirectAny> { w.to_direct(k) }

pub fn w_destroy__entity(w: &mut SpecWorld, k: Entity<ArchThree>) -> Option<ArchThreeComponents> { w.destroy(k) }
pub fn w_destroy__direct(w: &mut SpecWorld, k: EntityDirect<ArchThree>) -> Option<ArchThreeComponents> { w.destroy(k) }
pub fn w_destroy__any(w: &mut SpecWorld, k: EntityAny) -> Option<()> { w.destroy(k) }
pub fn w_destroy__directany(w: &mut SpecWorld, k: EntityDirectAny) -> Option<()> { w.destroy(k) }

pub fn w_view__entity(w: &mut SpecWorld, k: Entity<ArchThree>) -> Option<u32> { w.view(k).map(|v| v.comp_a.0) }
pub fn w_view__direct(w: &mut SpecWorld, k: EntityDirect<ArchThree>) -> Option<u32> { w.view(k).map(|v| v.comp_a.0) }
pub fn w_borrow__entity(w: &SpecWorld, k: Entity<ArchThree>) -> Option<u32> { w.borrow(k).map(|b| b.component::<CompA>().0) }
pub fn w_borrow__direct(w: &SpecWorld, k: EntityDirect<ArchThree>) -> Option<u32> { w.borrow(k).map(|b| b.component::<CompA>().0) }

pub fn w_create(w: &mut SpecWorld, a: CompA, b: CompBox, c: CompAl) -> Entity<ArchThree> { w.create::<ArchThree>((a, b, c)) }
pub fn w_create_within(w: &mut SpecWorld, a: CompA, b: CompBox, c: CompAl) -> Result<Entity<ArchThree>, ArchThreeComponents> {
    w.create_within_capacity::<ArchThree>((a, b, c))
}
pub fn w_create_one(w: &mut SpecWorld, a: CompA) -> Entity<ArchOne> { w.create::<ArchOne>((a,)) }
pub fn w_create_two(w: &mut SpecWorld, a: CompA) -> Entity<ArchTwo> { w.create::<ArchTwo>((a, CompZ)) }
pub fn w_create_drop(w: &mut SpecWorld, a: CompD, b: CompBox) -> Entity<ArchDrop> { w.create::<ArchDrop>((a, b)) }
pub fn w_create_big(w: &mut SpecWorld) -> Entity<ArchBig> {
    w.create::<ArchBig>((K0(0), K1(1), K2(2), K3(3), K4(4), K5(5), K6(6), K7(7), K8(8), K9(9), K10(10), K11(11), K12(12), K13(13), K14(14), K15(15)))
}
pub fn w_new() -> SpecWorld { SpecWorld::new() }
pub fn w_with_capacity(n: usize) -> SpecWorld {
    SpecWorld::with_capacity(SpecWorldCapacity { arch_one: n, arch_two: n, arch_three: n, arch_big: n, arch_drop: n })
}
pub fn w_clone(w: &SpecWorld) -> SpecWorld { w.clone() }
pub fn w_drop(w: SpecWorld) { drop(w) }

// ------------------------------------------------------------------------------------
// archetype-level key API, four key kinds
// ------------------------------------------------------------------------------------
pub fn a_contains__entity(a: &ArchThree, k: Entity<ArchThree>) -> bool { a.contains(k) }
pub fn a_contains__direct(a: &ArchThree, k: EntityDirect<ArchThree>) -> bool { a.contains(k) }
pub fn a_contains__any(a: &ArchThree, k: EntityAny) -> bool { a.contains(k) }
pub fn a_contains__directany(a: &ArchThree, k: EntityDirectAny) -> bool { a.contains(k) }

pub fn a_resolve__entity(a: &ArchThree, k: Entity<ArchThree>) -> Option<usize> { a.resolve(k) }
pub fn a_resolve__direct(a: &ArchThree, k: EntityDirect<ArchThree>) -> Option<usize> { a.resolve(k) }
pub fn a_resolve__any(a: &ArchThree, k: EntityAny) -> Option<usize> { a.resolve(k) }
pub fn a_resolve__directany(a: &ArchThree, k: EntityDirectAny) -> Option<usize> { a.resolve(k) }

pub fn a_to_direct__entity(a: &ArchThree, k: Entity<ArchThree>) -> Option<EntityDirect<ArchThree>> { a.to_direct(k) }
pub fn a_to_direct__direct(a: &ArchThree, k: EntityDirect<ArchThree>) -> Option<EntityDirect<ArchThree>> { a.to_direct(k) }
pub fn a_to_direct__any(a: &ArchThree, k: EntityAny) -> Option<EntityDirectAny> { a.to_direct(k) }
pub fn a_to_direct__directany(a: &ArchThree, k: EntityDirectAny) -> Option<EntityDirectAny> { a.to_direct(k) }

pub fn a_view__entity(a: &mut ArchThree, k: Entity<ArchThree>) -> Option<u32> { a.view(k).map(|v| v.comp_a.0) }
pub fn a_view__direct(a: &mut ArchThree, k: EntityDirect<ArchThree>) -> Option<u32> { a.view(k).map(|v| v.comp_a.0) }
pub fn a_view__any(a: &mut ArchThree, k: EntityAny) -> Option<u32> { a.view(k).map(|v| v.comp_a.0) }
pub fn a_view__directany(a: &mut ArchThree, k: EntityDirectAny) -> Option<u32> { a.view(k).map(|v| v.comp_a.0) }

pub fn a_borrow__entity(a: &ArchThree, k: Entity<ArchThree>) -> Option<u32> { a.borrow(k).map(|b| b.component::<CompA>().0) }
pub fn a_borrow__direct(a: &ArchThree, k: EntityDirect<ArchThree>) -> Option<u32> { a.borrow(k).map(|b| b.component::<CompA>().0) }
pub fn a_borrow__any(a: &ArchThree, k: EntityAny) -> Option<u32> { a.borrow(k).map(|b| b.component::<CompA>().0) }
pub fn a_borrow__directany(a: &ArchThree, k: EntityDirectAny) -> Option<u32> { a.borrow(k).map(|b| b.component::<CompA>().0) }
pub fn a_borrow_mut__entity(a: &ArchThree, k: Entity<ArchThree>) -> Option<u32> {
    a.borrow(k).map(|b| { let mut c = b.component_mut::<CompBox>(); *c.0 += 1; let _ = *b.entity(); b.index() as u32 })
}

pub fn a_destroy__entity(a: &mut ArchThree, k: Entity<ArchThree>) -> Option<ArchThreeComponents> { a.destroy(k) }
pub fn a_destroy__direct(a: &mut ArchThree, k: EntityDirect<ArchThree>) -> Option<ArchThreeComponents> { a.destroy(k) }
pub fn a_destroy__any(a: &mut ArchThree, k: EntityAny) -> Option<ArchThreeComponents> { a.destroy(k) }
pub fn a_destroy__directany(a: &mut ArchThree, k: EntityDirectAny) -> Option<ArchThreeComponents> { a.destroy(k) }

pub fn a_create(a: &mut ArchThree, x: CompA, b: CompBox, c: CompAl) -> Entity<ArchThree> { a.create((x, b, c)) }
pub fn a_create_within(a: &mut ArchThree, x: CompA, b: CompBox, c: CompAl) -> Result<Entity<ArchThree>, ArchThreeComponents> {
    a.create_within_capacity((x, b, c))
}
pub fn a_len(a: &ArchThree) -> usize { a.len() }
pub fn a_capacity(a: &ArchThree) -> usize { a.capacity() }
pub fn a_is_empty(a: &ArchThree) -> bool { a.is_empty() }
pub fn a_version(a: &ArchThree) -> gecs::version::ArchetypeVersion { a.version() }
pub fn a_entities(a: &ArchThree) -> usize { a.entities().len() }
pub fn a_with_capacity(n: usize) -> ArchThree { ArchThree::with_capacity(n) }
pub fn a_iter(a: &mut ArchThree) -> u32 { let mut s = 0; for (e, x, b, c) in a.iter() { s += x.0; } s }
pub fn a_iter_mut(a: &mut ArchThree) { for (e, x, b, c) in a.iter_mut() { x.0 += 1; } }
pub fn a_get_slice(a: &mut ArchThree) -> usize { a.get_slice::<CompBox>().len() }
pub fn a_get_slice_mut(a: &mut ArchThree) -> usize { a.get_slice_mut::<CompAl>().len() }
pub fn a_borrow_slice(a: &ArchThree) -> usize { a.borrow_slice::<CompBox>().len() }
pub fn a_borrow_slice_mut(a: &ArchThree) -> usize { a.borrow_slice_mut::<CompAl>().len() }
pub fn a_get_all_slices_mut(a: &mut ArchThree) -> usize { let s = a.get_all_slices_mut(); s.entity.len() + s.comp_a.len() + s.comp_box.len() + s.comp_al.len() }
pub fn a_clone(a: &ArchThree) -> ArchThree { a.clone() }
pub fn a_big_iter(a: &mut ArchBig) -> u32 { let mut s = 0u32; for t in a.iter() { s += t.16 .0 as u32; } s }
pub fn a_big_destroy(a: &mut ArchBig, k: Entity<ArchBig>) -> Option<ArchBigComponents> { a.destroy(k) }
pub fn a_big_clone(a: &ArchBig) -> ArchBig { a.clone() }
pub fn a_one_destroy(a: &mut ArchOne, k: Entity<ArchOne>) -> Option<ArchOneComponents> { a.destroy(k) }
pub fn a_two_destroy(a: &mut ArchTwo, k: EntityDirect<ArchTwo>) -> Option<ArchTwoComponents> { a.destroy(k) }
pub fn a_drop_destroy(a: &mut ArchDrop, k: Entity<ArchDrop>) -> Option<ArchDropComponents> { a.destroy(k) }

// ------------------------------------------------------------------------------------
// conversions / select
// ------------------------------------------------------------------------------------
pub fn sel_entity(k: EntityAny) -> Result<SelectEntity, gecs::error::EcsError> { k.try_into() }
pub fn sel_direct(k: EntityDirectAny) -> Result<SelectEntityDirect, gecs::error::EcsError> { k.try_into() }
pub fn sel_arch_from_any(k: EntityAny) -> Result<SelectArchetype, gecs::error::EcsError> { k.try_into() }
pub fn sel_arch_from_id(k: ArchetypeId) -> Result<SelectArchetype, gecs::error::EcsError> { k.try_into() }
pub fn sel_arch_id(s: SelectArchetype) -> ArchetypeId { s.archetype_id() }
pub fn sel_from_entity(k: Entity<ArchThree>) -> SelectEntity { k.into() }
pub fn sel_from_entity_ref(k: &Entity<ArchThree>) -> SelectEntity { k.into() }
pub fn sel_from_direct(k: EntityDirect<ArchThree>) -> SelectEntityDirect { k.into() }
pub fn sel_arch_from_entity(k: Entity<ArchThree>) -> SelectArchetype { k.into() }
pub fn sel_arch_from_direct(k: EntityDirect<ArchThree>) -> SelectArchetype { k.into() }
pub fn conv_try_from_any(k: EntityAny) -> Result<Entity<ArchThree>, gecs::error::EcsError> { k.try_into() }
pub fn conv_try_from_directany(k: EntityDirectAny) -> Result<EntityDirect<ArchThree>, gecs::error::EcsError> { k.try_into() }
pub fn conv_component_id() -> (u8, u8, u8) {
    (ecs_component_id!(CompA, ArchThree), ecs_component_id!(CompBox, ArchThree), ecs_component_id!(CompAl, ArchThree))
}

// ------------------------------------------------------------------------------------
// query macros: find (mut)
// ------------------------------------------------------------------------------------
pub fn find_mut__entity(w: &mut SpecWorld, k: Entity<ArchThree>) -> Option<u32> {
    ecs_find!(w, k, |a: &mut CompA, e: &Entity<_>, ea: &EntityAny, d: &EntityDirect<_>, da: &EntityDirectAny| -> u32 { a.0 += 1; a.0 })
}
pub fn find_mut__direct(w: &mut SpecWorld, k: EntityDirect<ArchThree>) -> Option<u32> {
    ecs_find!(w, k, |a: &mut CompA, e: &Entity<_>, ea: &EntityAny, d: &EntityDirect<_>, da: &EntityDirectAny| -> u32 { a.0 += 1; a.0 })
}
pub fn find_mut__any(w: &mut SpecWorld, k: EntityAny) -> Option<u32> {
    ecs_find!(w, k, |a: &mut CompA, e: &Entity<_>, ea: &EntityAny, d: &EntityDirect<_>, da: &EntityDirectAny| -> u32 { a.0 += 1; a.0 })
}
pub fn find_mut__directany(w: &mut SpecWorld, k: EntityDirectAny) -> Option<u32> {
    ecs_find!(w, k, |a: &mut CompA, e: &Entity<_>, ea: &EntityAny, d: &EntityDirect<_>, da: &EntityDirectAny| -> u32 { a.0 += 1; a.0 })
}
pub fn find_mut__typed(w: &mut SpecWorld, k: EntityAny) -> Option<u32> {
    ecs_find!(w, k, |b: &CompBox, c: &mut CompAl, e: &Entity<ArchThree>, d: &EntityDirect<ArchThree>| -> u32 { c.0[0] = 1; *b.0 })
}
pub fn find_mut__oneof(w: &mut SpecWorld, k: EntityAny) -> Option<u32> {
    ecs_find!(w, k, |x: &OneOf<CompZ, CompAl, K3>, a: &CompA| -> u32 { a.0 })
}
pub fn find_mut__partial(w: &mut SpecWorld, k: EntityAny) -> Option<u32> {
    // matches ArchThree and ArchDrop only: a live ArchOne key must fall through to None
    ecs_find!(w, k, |b: &CompBox| -> u32 { *b.0 })
}
pub fn find_mut__cfg(w: &mut SpecWorld, k: EntityAny) -> Option<u32> {
    ecs_find!(w, k, |#[cfg(any())] z: &CompZ, a: &CompA, #[cfg(all())] b: &CompBox| -> u32 { a.0 })
}

// ------------------------------------------------------------------------------------
// query macros: find_borrow
// ------------------------------------------------------------------------------------
pub fn find_borrow__entity(w: &SpecWorld, k: Entity<ArchThree>) -> Option<u32> {
    ecs_find_borrow!(w, k, |a: &mut CompA, b: &CompBox, e: &Entity<_>, ea: &EntityAny, d: &EntityDirect<_>, da: &EntityDirectAny| -> u32 { a.0 += 1; a.0 })
}
pub fn find_borrow__direct(w: &SpecWorld, k: EntityDirect<ArchThree>) -> Option<u32> {
    ecs_find_borrow!(w, k, |a: &mut CompA, b: &CompBox, e: &Entity<_>, ea: &EntityAny, d: &EntityDirect<_>, da: &EntityDirectAny| -> u32 { a.0 += 1; a.0 })
}
pub fn find_borrow__any(w: &SpecWorld, k: EntityAny) -> Option<u32> {
    ecs_find_borrow!(w, k, |a: &mut CompA, e: &Entity<_>, ea: &EntityAny, d: &EntityDirect<_>, da: &EntityDirectAny| -> u32 { a.0 += 1; a.0 })
}
pub fn find_borrow__directany(w: &SpecWorld, k: EntityDirectAny) -> Option<u32> {
    ecs_find_borrow!(w, k, |a: &mut CompA, e: &Entity<_>, ea: &EntityAny, d: &EntityDirect<_>, da: &EntityDirectAny| -> u32 { a.0 += 1; a.0 })
}
pub fn find_borrow__typed(w: &SpecWorld, k: EntityAny) -> Option<u32> {
    ecs_find_borrow!(w, k, |b: &CompBox, c: &mut CompAl, e: &Entity<ArchThree>, d: &EntityDirect<ArchThree>| -> u32 { c.0[0] = 1; *b.0 })
}

pub fn find_borrow__oneof(w: &SpecWorld, k: EntityAny) -> Option<u32> {
    ecs_find_borrow!(w, k, |x: &OneOf<CompZ, CompAl, K3>, a: &mut CompA| -> u32 { a.0 += 1; a.0 })
}

// ------------------------------------------------------------------------------------
// query macros: iter (mut), iter_borrow, iter_destroy
// ------------------------------------------------------------------------------------
pub fn iter_mut__all(w: &mut SpecWorld) -> u32 {
    let mut s = 0;
    ecs_iter!(w, |a: &mut CompA, e: &Entity<_>, ea: &EntityAny, d: &EntityDirect<_>, da: &EntityDirectAny| { a.0 += 1; s += a.0; });
    s
}
pub fn iter_mut__typed(w: &mut SpecWorld) -> u32 {
    let mut s = 0;
    ecs_iter!(w, |b: &CompBox, c: &mut CompAl, e: &Entity<ArchThree>, d: &EntityDirect<ArchThree>| { s += *b.0; });
    s
}
pub fn iter_mut__break(w: &mut SpecWorld) -> u32 {
    let mut s = 0;
    ecs_iter!(w, |a: &CompA| { s += a.0; if s > 10 { EcsStep::Break } else { EcsStep::Continue } });
    s
}
pub fn iter_mut__oneof(w: &mut SpecWorld) -> u32 {
    let mut s = 0;
    ecs_iter!(w, |x: &OneOf<CompZ, CompAl, K3>| { s += 1; });
    s
}
pub fn iter_mut__cfg(w: &mut SpecWorld) -> u32 {
    let mut s = 0;
    ecs_iter!(w, |#[cfg(any())] z: &CompZ, a: &CompA, #[cfg(all())] b: &CompBox| { s += a.0; });
    s
}
pub fn iter_mut__big(w: &mut SpecWorld) -> u32 {
    let mut s = 0u32;
    ecs_iter!(w, |x: &K0, y: &mut K15, z: &K7| { y.0 += x.0; s += z.0 as u32; });
    s
}
pub fn iter_borrow__all(w: &SpecWorld) -> u32 {
    let mut s = 0;
    ecs_iter_borrow!(w, |a: &mut CompA, e: &Entity<_>, ea: &EntityAny, d: &EntityDirect<_>, da: &EntityDirectAny| { a.0 += 1; s += a.0; });
    s
}
pub fn iter_borrow__typed(w: &SpecWorld) -> u32 {
    let mut s = 0;
    ecs_iter_borrow!(w, |b: &CompBox, c: &mut CompAl, e: &Entity<ArchThree>, d: &EntityDirect<ArchThree>| { s += *b.0; });
    s
}
pub fn iter_borrow__break(w: &SpecWorld) -> u32 {
    let mut s = 0;
    ecs_iter_borrow!(w, |a: &CompA| { s += a.0; if s > 10 { EcsStep::Break } else { EcsStep::Continue } });
    s
}
pub fn iter_borrow__oneof(w: &SpecWorld) -> u32 {
    let mut s = 0;
    ecs_iter_borrow!(w, |x: &OneOf<CompZ, CompAl, K3>, a: &CompA| { s += a.0; });
    s
}
pub fn iter_borrow__oneof_mut(w: &SpecWorld) -> u32 {
    let mut s = 0;
    ecs_iter_borrow!(w, |x: &mut OneOf<CompD, CompAl>, b: &CompBox| { s += *b.0; });
    s
}
pub fn iter_destroy__all(w: &mut SpecWorld) -> u32 {
    let mut s = 0;
    ecs_iter_destroy!(w, |a: &mut CompA, e: &Entity<_>, ea: &EntityAny, d: &EntityDirect<_>, da: &EntityDirectAny| {
        s += a.0;
        if a.0 == 0 { EcsStepDestroy::ContinueDestroy } else if a.0 == 1 { EcsStepDestroy::BreakDestroy } else if a.0 == 2 { EcsStepDestroy::Break } else { EcsStepDestroy::Continue }
    });
    s
}
pub fn iter_destroy__typed(w: &mut SpecWorld) -> u32 {
    let mut s = 0;
    ecs_iter_destroy!(w, |b: &CompBox, e: &Entity<ArchThree>, d: &EntityDirect<ArchThree>| {
        s += *b.0;
        if *b.0 == 0 { EcsStepDestroy::ContinueDestroy } else { EcsStepDestroy::Continue }
    });
    s
}
pub fn iter_destroy__unit(w: &mut SpecWorld) {
    ecs_iter_destroy!(w, |a: &CompA| { });
}
pub fn iter_destroy__step(w: &mut SpecWorld) {
    ecs_iter_destroy!(w, |a: &CompA| { if a.0 > 3 { EcsStep::Break } else { EcsStep::Continue } });
}
// cfg-decorated parameters: several attributes on one parameter (their conjunction decides) and a disabled filter in each macro
pub fn iter_mut__cfgstack(w: &mut SpecWorld) -> u32 {
    let mut s = 0;
    ecs_iter!(w, |a: &CompA, #[cfg(all())] #[cfg(any())] z: &CompZ, #[cfg(any())] #[cfg(all())] b: &CompBox| { s += a.0; });
    s
}
pub fn iter_borrow__cfg(w: &SpecWorld) -> u32 {
    let mut s = 0;
    ecs_iter_borrow!(w, |a: &CompA, #[cfg(all())] #[cfg(any())] z: &CompZ| { s += a.0; });
    s
}
pub fn iter_destroy__cfg(w: &mut SpecWorld) -> u32 {
    let mut s = 0;
    ecs_iter_destroy!(w, |a: &CompA, #[cfg(any())] z: &CompZ, #[cfg(all())] #[cfg(any())] e: &Entity<ArchThree>| {
        s += a.0;
        if a.0 == 0 { EcsStepDestroy::ContinueDestroy } else { EcsStepDestroy::Continue }
    });
    s
}

// ------------------------------------------------------------------------------------
// events
// ------------------------------------------------------------------------------------
#[cfg(feature = "events")]
pub mod events {
    use super::*;
    pub fn w_iter_created(w: &SpecWorld) -> usize { w.iter_created().count() }
    pub fn w_iter_destroyed(w: &SpecWorld) -> usize { w.iter_destroyed().count() }
    pub fn w_size_hint(w: &SpecWorld) -> (usize, Option<usize>) { w.iter_created().size_hint() }
    pub fn w_clear(w: &mut SpecWorld) { w.clear_events() }
    pub fn a_iter_created(a: &ArchThree) -> usize { a.iter_created().count() }
    pub fn a_iter_destroyed(a: &ArchThree) -> usize { a.iter_destroyed().count() }
    pub fn a_clear(a: &mut ArchThree) { a.clear_events() }
}
