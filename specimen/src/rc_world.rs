use gecs::prelude::*;
use std::rc::Rc;

#[derive(Clone)]
pub struct CompRc(pub Rc<u32>);
#[derive(Clone)]
pub struct CompU(pub u64);

ecs_world! {
    ecs_name!(RcWorld);
    ecs_archetype!(ArchRc, CompRc, CompU);
}

pub fn rc_create(w: &mut RcWorld, a: CompRc) -> Entity<ArchRc> { w.create::<ArchRc>((a, CompU(0))) }
pub fn rc_destroy(w: &mut RcWorld, k: EntityAny) -> Option<()> { w.destroy(k) }
