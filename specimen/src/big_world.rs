use gecs::prelude::*;

macro_rules! small { ($($n:ident),*) => { $( #[derive(Clone)] pub struct $n(pub u8); )* } }
small!(B0, B1, B2, B3, B4, B5, B6, B7, B8, B9, B10, B11, B12, B13, B14, B15, B16, B17, B18, B19, B20, B21, B22, B23, B24, B25, B26, B27, B28, B29, B30, B31);

ecs_world! {
    ecs_name!(BigWorld);
    ecs_archetype!(Arch17, B0, B1, B2, B3, B4, B5, B6, B7, B8, B9, B10, B11, B12, B13, B14, B15, B16);
    ecs_archetype!(Arch32, B0, B1, B2, B3, B4, B5, B6, B7, B8, B9, B10, B11, B12, B13, B14, B15, B16, B17, B18, B19, B20, B21, B22, B23, B24, B25, B26, B27, B28, B29, B30, B31);
}

pub fn big_destroy17(w: &mut BigWorld, k: Entity<Arch17>) -> Option<Arch17Components> { w.destroy(k) }
pub fn big_destroy32(w: &mut BigWorld, k: EntityAny) -> Option<()> { w.destroy(k) }
pub fn big_clone(w: &BigWorld) -> BigWorld { w.clone() }
pub fn big_iter(w: &mut BigWorld) -> u32 { let mut s = 0u32; ecs_iter!(w, |a: &B0, z: &mut B16| { z.0 += a.0; s += 1; }); s }
