//! Specimen client crate: never executed. It exists so that generated code and
//! monomorphic instances of gecs generics exist for the MIR fact extractor.
#![forbid(unsafe_code)]
#![allow(dead_code, unused_variables, unused_mut, non_snake_case, unused_imports, clippy::all)]

use gecs::prelude::*;

pub mod main_world;
pub mod rc_world;
pub mod single_world;
#[cfg(feature = "c32")]
pub mod big_world;
