use gecs::prelude::*;

#[derive(Clone)]
pub struct CompS(pub u16);

// default name, single archetype, implicit id 0
ecs_world! {
    ecs_archetype!(ArchSolo, CompS);
}

pub fn solo_create(w: &mut EcsWorld, a: CompS) -> Entity<ArchSolo> { w.create::<ArchSolo>((a,)) }
pub fn solo_contains(w: &EcsWorld, k: EntityAny) -> bool { w.contains(k) }
pub fn solo_sel(k: EntityAny) -> Result<SelectEntity, gecs::error::EcsError> { k.try_into() }
pub fn solo_iter(w: &mut EcsWorld) -> u32 { let mut s = 0u32; ecs_iter!(w, |a: &CompS| { s += a.0 as u32; }); s }
#[cfg(feature = "events")]
pub fn solo_events(w: &EcsWorld) -> (usize, Option<usize>) { w.iter_destroyed().size_hint() }
