#!/bin/bash
# Builds the engines offline (mirfacts rustc driver, tmpl syn tool) and warms the
# dependency builds of the quick-tier configurations. Safe to re-run.
set -e
cd "$(dirname "$0")"
export CARGO_NET_OFFLINE=true
(cd engine/mirfacts && cargo +nightly build --release --offline 2>&1 | tail -2)
if [ -d engine/tmpl ]; then
  (cd engine/tmpl && cargo build --release --offline 2>&1 | tail -2)
fi
python3 engine/extract.py quick
python3 -c "import sys; sys.path.insert(0, \"engine\"); from rules import r_witness; r_witness.base_build(\"/repo\")"
echo "setup done"
