#!/bin/bash
# usage: process_seed.sh C04b   -> verifies the seed in /tmp/wt-C04b, runs all checks on it, archives under /verif/seeded/C04b
ID=$1; LOW=$(echo $ID | tr 'A-Z' 'a-z'); WT=/tmp/wt-$ID; DEMO=demo_$LOW
OUT=/verif/seeded/$ID; mkdir -p $OUT
/verif/selftest/verify_seed.sh $WT $DEMO > $OUT/verify.log 2>&1
rm -f $WT/tests/$DEMO.rs   # the analysed tree = library change only
cd /verif && ./check ALL --repo $WT > $OUT/check.log 2>&1
tail -1 $OUT/check.log | cut -c1-1200
cp $WT/_out/patch.diff $OUT/patch.diff; cp $WT/_out/$DEMO.rs $OUT/; cp $WT/_out/meta.txt $OUT/agent_meta.txt
grep -E "^(SUITE|DEMO)_" $OUT/verify.log | tr '\n' ' '; echo
