#!/usr/bin/env python3
"""Developer self-test (not a registered check): applies each seeded mutant / benign edit to a
scratch copy of /repo (outside /repo and /verif, deleted afterwards) and reports which
properties' checks fire. usage: run_mutants.py [name-substring ...] [--tier quick] [--keep]"""
import json, os, shutil, subprocess, sys, tempfile, time
HERE = os.path.dirname(os.path.abspath(__file__))
VERIF = os.path.dirname(HERE)
sys.path.insert(0, HERE)
from mutants import MUTANTS

def main():
    args = [a for a in sys.argv[1:] if not a.startswith("--")]
    props = None
    for a in sys.argv[1:]:
        if a.startswith("--props="):
            props = a.split("=", 1)[1].split(",")
    sys.path.insert(0, os.path.join(VERIF, "engine"))
    from rules import registry
    allprops = sorted(registry.PROPS)
    results = []
    for m in MUTANTS:
        if args and not any(a in m["name"] for a in args):
            continue
        tmp = tempfile.mkdtemp(prefix="vmut-")
        repo = os.path.join(tmp, "repo")
        try:
            shutil.copytree("/repo", repo, ignore=shutil.ignore_patterns("target", ".git"))
            ok = True
            for (f, old, new) in m["edits"]:
                p = os.path.join(repo, f)
                s = open(p).read()
                if s.count(old) < 1:
                    print("!! mutant %s: pattern not found in %s: %r" % (m["name"], f, old[:60]))
                    ok = False
                    break
                s = s.replace(old, new, 1) if not m.get("all") else s.replace(old, new)
                open(p, "w").write(s)
            if not ok:
                results.append((m["name"], "PATTERN-MISSING", [], m.get("expect")))
                continue
            fired = []
            details = {}
            t = time.time()
            r = subprocess.run([os.path.join(VERIF, "check"), "ALL", "--repo", repo], capture_output=True, text=True)
            try:
                details = json.loads(r.stdout.strip().splitlines()[-1])
            except Exception:
                details = {"ENGINE": [r.stdout[-500:] + r.stderr[-500:]]}
            fired = sorted(details)
            exp = m.get("expect")
            status = "ok"
            if exp is not None:
                if exp == [] and fired:
                    status = "FALSE-ALARM"
                elif exp and not (set(exp) & set(fired)):
                    status = "MISSED"
            print("%-44s fired=%s expect=%s %s [%.0fs]" % (m["name"], fired, exp, status, time.time() - t))
            if status != "ok" or "--verbose" in sys.argv:
                for pid, d in details.items():
                    for l in d:
                        print("      %s %s" % (pid, l[:300]))
            results.append((m["name"], status, fired, exp))
        finally:
            shutil.rmtree(tmp, ignore_errors=True)
    bad = [r for r in results if r[1] != "ok"]
    print("%d mutants, %d not as expected" % (len(results), len(bad)))

if __name__ == "__main__":
    main()
