"""Seeded mutants (expected to fire the listed properties) and benign edits (expect == [])."""
ST = "src/archetype/storage.rs"
SL = "src/archetype/slot.rs"
MUTANTS = [
    dict(name="C01-drop-is_free", edits=[(ST, "if (slot.version() != entity.version()) || slot.is_free() {", "if slot.version() != entity.version() {")], expect=["C01", "C03"]),
    dict(name="C01-drop-version-cmp", edits=[(ST, "if (slot.version() != entity.version()) || slot.is_free() {", "if slot.is_free() {")], expect=["C01"]),
    dict(name="C01-capacity-gt", edits=[(ST, "if slot_index_usize >= self.capacity() {", "if slot_index_usize > self.capacity() {")], expect=["C01", "C03"]),
    dict(name="C01-release-last-slot", edits=[(ST, ".get_unchecked_mut(slot_index_usize) // SAFETY: See declaration.\n                            .release(self.free_head);", ".get_unchecked_mut(last_slot_index) // SAFETY: See declaration.\n                            .release(self.free_head);")], expect=["C01"]),
    dict(name="C01-conditional-bump", edits=[(SL, "self.version = self.version.next();", "if self.version.get().get() & 1 == 1 { self.version = self.version.next(); }")], expect=["C01", "C08"]),
    dict(name="C09-skip-bump-when-last", edits=[(ST, "self.version = self.version.next();\n\n                        result", "if dense_index_usize != last_dense_index { self.version = self.version.next(); }\n\n                        result")], expect=["C09"]),
    dict(name="C09-direct-len-gt", edits=[(ST, "if dense_index_usize >= self.len() {", "if dense_index_usize > self.len() {")], expect=["C09", "C03"]),
    dict(name="C02-swap_remove-len-1", edits=[(ST, "self.entities.swap_remove(dense_index_usize, self.len);", "self.entities.swap_remove(dense_index_usize, self.len - 1);")], expect=["C02"]),
    dict(name="C02-entity-written-after-inc", edits=[(ST, "self.entities.write(index, entity);", "self.entities.write(self.len, entity);")], expect=["C02"]),
    dict(name="C12-free_head-after-assign", edits=[(ST, "self.free_head = slot.index();\n                        slot.assign(dense_index);", "slot.assign(dense_index);\n                        self.free_head = slot.index();")], expect=["C12"]),
    dict(name="C08-mint-start-version", edits=[(ST, "let entity = Entity::new(slot_index, slot.version());", "let entity = Entity::new(slot_index, crate::version::SlotVersion::start());")], expect=["C08"]),
    dict(name="C03-direct-slice-capacity", edits=[(ST, "let entities = self.entities.slice(self.len);\n                        // SAFETY: We know dense_index_usize is within bounds due to the check above.", "let entities = self.entities.slice(self.capacity());\n                        // SAFETY: We know dense_index_usize is within bounds due to the check above.")], expect=["C03", "C02"]),
    # benign edits: must stay silent
    dict(name="benign-guard-as-if-else", edits=[(ST, "if slot_index_usize >= self.capacity() {\n                            return None;\n                        }", "if slot_index_usize < self.capacity { } else {\n                            return None;\n                        }")], expect=[]),
    dict(name="benign-len-accessor", edits=[(ST, "let last_dense_index = self.len - 1;", "let last_dense_index = self.len() - 1;")], expect=[]),
    dict(name="benign-remove-len0-earlyout", edits=[(ST, "// Nothing to resolve if we have nothing stored\n                    if self.len == 0 {\n                        return None;\n                    }\n\n                    // Get the index into the slot array from the entity.", "// Get the index into the slot array from the entity.")], expect=[]),
]
