#!/bin/bash
# usage: verify_seed.sh <wt dir> <demo name>   (run inside nothing; prints a JSON-ish summary)
WT=$1; DEMO=$2
cd $WT || exit 2
[ -f _out/patch.diff ] || { echo "no patch"; exit 2; }
git checkout -q -- src macros
git apply _out/patch.diff || { echo "patch does not apply"; exit 2; }
cp -f _out/$DEMO.rs tests/$DEMO.rs 2>/dev/null
echo "== with change: full suite (excluding demo)"
cargo test --workspace --no-fail-fast --offline $EXTRA 2>&1 | grep -E "^test result|Running|FAILED|failed" | grep -v "^test result: ok" | head -20
echo "== with change: demo"
cargo test --offline $EXTRA --test $DEMO 2>&1 | grep -E "^test result|panicked|FAILED" | head -5
git checkout -q -- src macros
echo "== without change: demo"
cargo test --offline $EXTRA --test $DEMO 2>&1 | grep -E "^test result|panicked|FAILED" | head -5
git apply _out/patch.diff
echo "== re-applied"
