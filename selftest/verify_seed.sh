#!/bin/bash
# usage: verify_seed.sh <wt dir> <demo name>   (EXTRA="--features x" optional)
# verifies a seeded change in both directions; prints SUITE_WITH_CHANGE / DEMO_WITH_CHANGE / DEMO_WITHOUT_CHANGE lines
WT=$1; DEMO=$2
cd $WT || exit 2
[ -f _out/patch.diff ] || { echo "no patch"; exit 2; }
git checkout -q -- src macros
git apply _out/patch.diff || { echo "patch does not apply"; exit 2; }
rm -f tests/$DEMO.rs
echo "== with change: full existing suite (demo moved aside)"
cargo test --workspace --no-fail-fast --offline $EXTRA > /tmp/vs-$DEMO.log 2>&1; rc=$?
grep -E "^test result" /tmp/vs-$DEMO.log | sort | uniq -c | head -5
grep -E "FAILED|panicked|error(\[|:)" /tmp/vs-$DEMO.log | head -10
echo "SUITE_WITH_CHANGE exit=$rc"
cp -f _out/$DEMO.rs tests/$DEMO.rs
echo "== with change: demo"
cargo test --offline $EXTRA --test $DEMO > /tmp/vs-$DEMO.log 2>&1; rc=$?
grep -E "^test result|panicked|FAILED|^error" /tmp/vs-$DEMO.log | head -8
echo "DEMO_WITH_CHANGE exit=$rc"
git checkout -q -- src macros
echo "== without change: demo"
cargo test --offline $EXTRA --test $DEMO > /tmp/vs-$DEMO.log 2>&1; rc=$?
grep -E "^test result|panicked|FAILED|^error" /tmp/vs-$DEMO.log | head -8
echo "DEMO_WITHOUT_CHANGE exit=$rc"
git apply _out/patch.diff
rm -f /tmp/vs-$DEMO.log
echo "== re-applied"
