#!/usr/bin/env python3
"""Developer self-test (not a registered check): a line-level mutation sweep over the anchored sources.
For each sampled mutant: (1) does the repository's own test suite still pass? (2) which checks fire?
Mutants that survive the tests AND raise no alarm are printed as SURVIVOR for manual triage (equivalent mutant,
property-irrelevant change, or a gap in the rules). Scratch copies live under /tmp and are removed.
usage: sweep.py <count> [seed] [file-substring]"""
import json, os, random, re, shutil, subprocess, sys, tempfile, time
VERIF = os.path.dirname(os.path.dirname(os.path.abspath(__file__)))
FILES = ["src/archetype/storage.rs", "src/archetype/slot.rs", "src/entity.rs", "src/index.rs", "src/version.rs", "src/archetype/iter.rs", "src/iter.rs", "src/traits.rs",
         "macros/src/generate/query.rs", "macros/src/generate/world.rs", "macros/src/data.rs", "macros/src/generate/cfg.rs", "macros/src/parse/cfg.rs", "macros/src/parse/world.rs"]
OPS = [
    (r"(?<![<>=!-])<(?![<=>])", "<="), (r"<=", "<"), (r"(?<![<>=!-])>=", ">"), (r"(?<![-=<>])>(?![>=])", ">="), (r"==", "!="), (r"!=", "=="),
    (r"\+ 1\b", "+ 2"), (r"\+ 1\b", ""), (r"- 1\b", ""), (r"\btrue\b", "false"), (r"\bfalse\b", "true"),
    (r"\bself\.len\b(?!\()", "self.capacity"), (r"\bself\.capacity\b(?!\()", "self.len"), (r"\bself\.len\(\)", "self.capacity()"), (r"\bself\.capacity\(\)", "self.len()"),
    (r"\bdense_index\b", "slot_index"), (r"\bslot_index\b", "dense_index"), (r"\.borrow_mut\(\)", ".borrow()"), (r"\.borrow\(\)", ".borrow_mut()"),
    (r"\bis_some\(\)", "is_none()"), (r"&&", "||"), (r"\|\|", "&&"), (r"\.rev\(\)", ""), (r"\bchecked_add\b", "wrapping_add"),
    (r"\bMAX_DATA_CAPACITY\b", "MAX_DATA_INDEX"), (r"\bMAX_DATA_INDEX\b", "MAX_DATA_CAPACITY"), (r"\bContinue\b", "Break"), (r"\bBreak\b", "Continue"),
    (r"\blast_dense_index\b", "dense_index_usize"), (r"\bnext_version\b", "self.version"), (r"\bold_capacity\b", "capacity"),
]

def candidates():
    out = []
    for f in FILES:
        p = os.path.join("/repo", f)
        if not os.path.exists(p):
            continue
        lines = open(p).read().split("\n")
        for i, l in enumerate(lines):
            st = l.strip()
            if not st or st.startswith("//") or st.startswith("#[") or st.startswith("///") or "debug_assert" in st or st.startswith("use "):
                continue
            code_end = l.find("//") if "//" in l else len(l)
            for k, (pat, rep) in enumerate(OPS):
                for m in re.finditer(pat, l):
                    if m.start() >= code_end:
                        continue
                    # skip generics / lifetimes / fn arrows / attribute-ish
                    ctx = l[max(0, m.start() - 2):m.end() + 2]
                    if pat.startswith("(?<![<>=!-])<") or pat.startswith("(?<![-=<>])>"):
                        if re.search(r"[A-Za-z_:\]\)]<[A-Za-z_&'\(\[]|->|=>|[A-Za-z_>]>[,;\)\s{>(]|::<", l[max(0, m.start() - 1):m.end() + 1] + " ") and not re.search(r"\s[<>]\s", l[max(0, m.start() - 1):m.end() + 1]):
                            continue
                        if not re.search(r"\s[<>]=?\s", l[max(0, m.start() - 1):m.end() + 2]):
                            continue
                    out.append((f, i, m.start(), m.end(), rep, k))
            # statement deletion
            if st.endswith(";") and not st.startswith(("let ", "return", "pub ", "const ", "type ", "}")) and "=>" not in st and st.count("(") == st.count(")"):
                out.append((f, i, None, None, None, -1))
    return out

def apply(repo, c):
    f, i, a, b, rep, k = c
    p = os.path.join(repo, f)
    lines = open(p).read().split("\n")
    old = lines[i]
    if a is None:
        lines[i] = re.sub(r"\S.*$", "/* deleted */", old)
    else:
        lines[i] = old[:a] + rep + old[b:]
    open(p, "w").write("\n".join(lines))
    return old.strip(), lines[i].strip()

def main():
    n = int(sys.argv[1]); seed = int(sys.argv[2]) if len(sys.argv) > 2 else 0
    sub = sys.argv[3] if len(sys.argv) > 3 else ""
    cs = [c for c in candidates() if sub in c[0]]
    random.Random(seed).shuffle(cs)
    print("# %d candidates, sampling %d (seed %d)" % (len(cs), n, seed), flush=True)
    tgt = "/tmp/sweep-target"
    env = dict(os.environ, CARGO_TARGET_DIR=tgt, CARGO_NET_OFFLINE="true", CARGO_INCREMENTAL="0", RUSTFLAGS="-Awarnings")
    stats = {"killed-by-tests": 0, "no-compile": 0, "alarm": 0, "SURVIVOR": 0}
    for c in cs[:n]:
        tmp = tempfile.mkdtemp(prefix="vsweep-")
        repo = os.path.join(tmp, "repo")
        try:
            shutil.copytree("/repo", repo, ignore=shutil.ignore_patterns("target", ".git"))
            old, new = apply(repo, c)
            if old == new:
                continue
            t0 = time.time()
            r = subprocess.run(["cargo", "test", "--workspace", "--no-fail-fast", "--offline", "-q"], cwd=repo, env=env, capture_output=True, text=True, timeout=900)
            tag = "%s:%d `%s` -> `%s`" % (c[0], c[1] + 1, old[:70], new[:70])
            if r.returncode != 0:
                kind = "no-compile" if ("error[" in r.stderr or "error:" in r.stderr) and "test result" not in r.stdout else "killed-by-tests"
                stats[kind] += 1
                print("%-16s %s [%.0fs]" % (kind, tag, time.time() - t0), flush=True)
                continue
            r2 = subprocess.run([os.path.join(VERIF, "check"), "ALL", "--repo", repo], capture_output=True, text=True)
            try:
                details = json.loads(r2.stdout.strip().splitlines()[-1])
            except Exception:
                details = {"ENGINE": [r2.stdout[-300:] + r2.stderr[-300:]]}
            if details:
                stats["alarm"] += 1
                print("%-16s %s fired=%s [%.0fs]" % ("alarm", tag, sorted(details), time.time() - t0), flush=True)
            else:
                stats["SURVIVOR"] += 1
                print("%-16s %s [%.0fs]" % ("SURVIVOR", tag, time.time() - t0), flush=True)
        except subprocess.TimeoutExpired:
            print("timeout          %s" % (c,), flush=True)
        finally:
            shutil.rmtree(tmp, ignore_errors=True)
    print("# " + json.dumps(stats), flush=True)

if __name__ == "__main__":
    main()
