#!/usr/bin/env python3
"""usage: write_meta.py <ID> <needs to manifest> <caught by ...>   (reads seeded/<ID>/verify.log and check.log)"""
import json, os, re, sys
ID, needs, caught = sys.argv[1], sys.argv[2], sys.argv[3:]
d = os.path.join(os.path.dirname(os.path.dirname(os.path.abspath(__file__))), "seeded", ID)
v = open(os.path.join(d, "verify.log")).read()
g = lambda k: int(re.search(k + r" exit=(\d+)", v).group(1))
chk = open(os.path.join(d, "check.log")).read().strip().splitlines()[-1]
meta = {
    "property": ID[:3],
    "round": {"": 1, "b": 2, "c": 3, "d": 6}.get(ID[3:], 2),
    "origin": "independent sub-agent given only the property text and a scratch worktree of /repo (no access to /verif)",
    "needs_to_manifest": needs,
    "verified": {
        "existing_suite_passes_with_change": g("SUITE_WITH_CHANGE") == 0,
        "demo_fails_with_change": g("DEMO_WITH_CHANGE") != 0,
        "demo_passes_without_change": g("DEMO_WITHOUT_CHANGE") == 0,
        "how": "selftest/verify_seed.sh in the scratch worktree (see verify.log)",
    },
    "ran": "git -C <scratch> apply patch.diff; ./check ALL --repo <scratch> (quick tier, 3 configurations)",
    "caught_by": caught,
    "first_check_output": chk[:3000],
}
json.dump(meta, open(os.path.join(d, "meta.json"), "w"), indent=1)
print(ID, meta["verified"], "fired:", sorted(json.loads(chk)) if chk.startswith("{") else chk[:100])
