#!/bin/bash
# developer helper: quick_rule.sh <patch> <module> <rule fn>...  -> applies patch to a scratch copy, extracts d-0 facts, runs the rule functions
PATCH=$1; shift
T=$(mktemp -d /tmp/qr-XXXX); cp -r /repo $T/repo; rm -rf $T/repo/target $T/repo/.git
( cd $T/repo && patch -p1 -s -i $PATCH ) || { echo patch failed; rm -rf $T; exit 2; }
cd /verif/engine
F=$(python3 - <<PY
import sys
sys.path.insert(0,'/verif/engine')
import extract
c=[c for c in extract.all_configs() if c.name=="${CFG:-d-0}"][0]
print(extract.ensure_facts(c, "$T/repo"))
PY
)
python3 dbg_rules.py $F "$@" 2>&1 | tail -${TAIL:-25}
rm -rf $T $F
