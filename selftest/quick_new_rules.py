#!/usr/bin/env python3
"""developer helper: run a fixed set of rule functions (default: the rules added in round 6) on the d-0 facts of each patched scratch copy.
usage: quick_new_rules.py <patch>...   (prints VIOL lines; silent patches print 'ok')"""
import os, shutil, subprocess, sys, tempfile, importlib
sys.path.insert(0, "/verif/engine")
import extract
from rules import core
RULES = [("r_storage2", "rule_implicit_drops"), ("r_storage2", "rule_dropper"), ("r_spec", "rule_funnel"), ("r_storage", "rule_version_next"), ("r_misc", "rule_unchecked_inventory"), ("r_spec", "rule_iter_loops"), ("r_spec", "rule_borrow_guards"), ("r_spec", "rule_find_dispatch"), ("r_spec", "rule_mints")]
if os.environ.get("RULES"):
    RULES = [tuple(x.split(".")) for x in os.environ["RULES"].split(",")]
cfg = [c for c in extract.all_configs() if c.name == os.environ.get("CFG", "d-0")][0]
for patch in sys.argv[1:]:
    T = tempfile.mkdtemp(prefix="qn-", dir="/tmp")
    try:
        shutil.copytree("/repo", T + "/repo", ignore=shutil.ignore_patterns("target", ".git"))
        r = subprocess.run(["patch", "-p1", "-s", "-i", os.path.abspath(patch)], cwd=T + "/repo", capture_output=True, text=True)
        if r.returncode:
            print(os.path.basename(patch), "PATCH-FAILED"); continue
        F = extract.ensure_facts(cfg, T + "/repo")
        ctx = core.Ctx(F, "dbg")
        R = core.Report("X"); R.config = "dbg"
        for m, fn in RULES:
            mod = importlib.import_module("rules." + m)
            if hasattr(mod, fn):
                try:
                    getattr(mod, fn)(ctx, R)
                except Exception as e:
                    print(os.path.basename(patch), "EXC", m, fn, repr(e)[:200])
        vs = [v for v in R.violations]
        print(os.path.basename(patch), "ok" if not vs else "VIOLATIONS %d" % len(vs), flush=True)
        for v in vs[:6]:
            print("    ", v.rule, v.key, "::", v.detail[:260], flush=True)
        shutil.rmtree(F, ignore_errors=True)
    finally:
        shutil.rmtree(T, ignore_errors=True)
