#!/usr/bin/env python3
"""Developer self-test (not a registered check): applies a patch file to a scratch copy of /repo
(outside /repo and /verif, deleted afterwards) and prints which properties' checks fire.
usage: run_patch.py <patch.diff>... [--tier quick|thorough] [--verbose]   (exit 1 if any patch raised an alarm)"""
import json, os, shutil, subprocess, sys, tempfile, time
VERIF = os.path.dirname(os.path.dirname(os.path.abspath(__file__)))

def main():
    rc = 0
    for a in sys.argv[1:]:
        if a.endswith(".diff"):
            rc |= one(os.path.abspath(a))
    return rc


def one(patch):
    tier = "quick"
    if "--tier" in sys.argv:
        tier = sys.argv[sys.argv.index("--tier") + 1]
    tmp = tempfile.mkdtemp(prefix="vpatch-")
    repo = os.path.join(tmp, "repo")
    try:
        shutil.copytree("/repo", repo, ignore=shutil.ignore_patterns("target", ".git"))
        r = subprocess.run(["patch", "-p1", "-s", "-i", patch], cwd=repo, capture_output=True, text=True)
        if r.returncode != 0:
            print("%s: PATCH-FAILED %s" % (patch, r.stdout[-300:] + r.stderr[-300:]))
            return 2
        t = time.time()
        r = subprocess.run([os.path.join(VERIF, "check"), "ALL", "--repo", repo, "--tier", tier], capture_output=True, text=True)
        try:
            details = json.loads(r.stdout.strip().splitlines()[-1])
        except Exception:
            details = {"ENGINE": [r.stdout[-500:] + r.stderr[-500:]]}
        print("%-40s fired=%s [%.0fs]" % (os.path.basename(os.path.dirname(patch)) + "/" + os.path.basename(patch), sorted(details), time.time() - t))
        for pid, d in sorted(details.items()):
            for l in d[: (50 if "--verbose" in sys.argv else 4)]:
                print("      %s %s" % (pid, l[:400]))
        return 1 if details else 0
    finally:
        shutil.rmtree(tmp, ignore_errors=True)

if __name__ == "__main__":
    sys.exit(main())
