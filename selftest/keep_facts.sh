#!/bin/bash
# developer helper: keep_facts.sh <patch> [cfg]  -> prints the facts dir of a patched scratch copy (scratch copy removed; facts dir stays in .cache/facts)
PATCH=$1; CFG=${2:-d-0}
T=$(mktemp -d /tmp/qr-XXXX); cp -r /repo $T/repo; rm -rf $T/repo/target $T/repo/.git
( cd $T/repo && patch -p1 -s -i $PATCH ) || { echo patch failed; rm -rf $T; exit 2; }
cd /verif/engine
python3 - <<PY
import sys
sys.path.insert(0,'/verif/engine')
import extract
c=[c for c in extract.all_configs() if c.name=="$CFG"][0]
print(extract.ensure_facts(c, "$T/repo"))
PY
rm -rf $T
